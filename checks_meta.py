"""Static description of each check: where its harness lives, the level it claims, what runs real code."""

TRUSTED = [
    "the in-tree simulator (/verif/sim/simcore): choice tape, seams, executor, shrinker",
    "extraction of results into the logical value tree through arrow's safe accessors (/verif/sim/gen)",
]

CHECKS = {
    "C03": {
        "crate": "light",
        "bin": "c03_coalesce",
        "level": "exploration",
        "rule": "one run = one seeded producer/consumer history over a BatchCoalescer (pushes with/without filter or indices, finishes, "
                "limit changes, drains at tape-chosen moments) checked step by step against a row-level reference model; a run is non-trivial "
                "when it executed at least one push; distinct = distinct hash of (op sequence, per-op row counts, filter class, target, limit)",
        "required_probes": ["probe.coalesce.sparse_copy", "probe.coalesce.materialised_filter", "probe.coalesce.bypass_history"],
        "components": {
            "real": ["arrow_select::coalesce::BatchCoalescer and its InProgressArray implementations", "filter / take_record_batch / concat as reached from the coalescer"],
            "stub": ["producer and consumer tasks (seeded scheduler decides pushes vs drains)"],
            "not_run": ["interleave, zip, merge, nullif, shift, dictionary GC (pure kernels; first sentence of C03 is not decided by this technique)"],
        },
        "level_text": "seeded exploration of producer/consumer histories of the stateful BatchCoalescer against an executable row-level reference model, "
                      "checked after every step (observers) and over the whole history (conservation, order, batch sizes); sampling, not proof",
        "design_ref": "DESIGN.md section 4 (C03)",
        "level_note": "decides only the coalescer-history sentence of C03; per-kernel equivalence for filter/take/concat is exercised only on the paths the coalescer takes; "
                      "trusted: in-tree simulator, value extraction through arrow's safe accessors, ArrayData::validate_full",
        "technique": "deterministic simulation: seeded producer/consumer schedule over a stateful buffer, reference-model refinement check, tape replay + shrinking",
        "assumptions": TRUSTED + [
            "ArrayData::validate_full is trusted as the validity oracle for emitted batches",
            "only the coalescer-history sentence of C03 is decided; per-kernel row-by-row equivalence is a pure-function claim",
            "8-bit dictionary keys are excluded: concat may legitimately fail with a key-overflow error",
        ],
    },
}


NOT_APPLICABLE = [
    {"property_id": "C01", "reason": "well-formedness of results of builders/kernels/conversions is a universal claim about pure functions of in-memory values; no seam, schedule, fault or shared state for a simulator to own (arrays returned by readers under injected faults are validated inside the C08/C14/C18 checks)"},
    {"property_id": "C02", "reason": "congruence of accessors, == and kernels across physical realisations relates two deterministic in-memory computations; there is no nondeterminism to control"},
    {"property_id": "C06", "reason": "pushdown == post-filter is a pure function of (file bytes, reader options); the part that depends on I/O behaviour is decided under C15"},
    {"property_id": "C07", "reason": "soundness of statistics, page indexes and bloom filters is a pure function of the values written and the writer configuration"},
    {"property_id": "C09", "reason": "completeness of validation is a predicate on in-memory layouts; pure"},
    {"property_id": "C10", "reason": "agreement of comparator, sort, rank, partition and comparison kernels is a pure-function claim"},
    {"property_id": "C11", "reason": "row-format order preservation, injectivity and inversion are pure; the converter keeps no state an external schedule could perturb"},
    {"property_id": "C12", "reason": "arithmetic / aggregate exactness is a pure-function claim"},
    {"property_id": "C13", "reason": "cast and text round-trip laws are pure-function claims"},
    {"property_id": "C17", "reason": "CSV/JSON/Avro write->read round trip and agreement with independent parsers quantify over inputs and options only; the transport-dependent behaviour of the same readers and writers is decided under C14 and C18"},
    {"property_id": "C19", "reason": "bit-mask primitives are pure functions of (bytes, offset, length)"},
    {"property_id": "C20", "reason": "string predicates and functions are pure"},
]

MANIFEST_TEXT = (
    "Technique family: deterministic simulation with fault injection. All checks run `./check <ID>`, which rebuilds the harness against /repo's "
    "working tree (RUSTFLAGS --cfg arrow_rs_verif), fans seeded runs out over 16 worker processes, re-executes a 2% sample in fresh processes "
    "(determinism recheck), shrinks and replays every violation, and rewrites evidence/<ID>.json. VERIF_SEED and VERIF_TIER are honoured. "
    "Exit 2 is a harness error and is never reported as a violation."
)
