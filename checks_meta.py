"""Static description of each check: where its harness lives, the level it claims, what runs real code."""

TRUSTED = [
    "the in-tree simulator (/verif/sim/simcore): choice tape, seams, executor, shrinker",
    "extraction of results into the logical value tree through arrow's safe accessors (/verif/sim/gen)",
]

CHECKS = {
    "C03": {
        "crate": "light",
        "bin": "c03_coalesce",
        "level": "exploration",
        "rule": "scenario coalesce_history: one run = one seeded producer/consumer history over a BatchCoalescer (pushes with/without filter or indices, finishes, limit changes, drains at tape-chosen "
                "moments) checked step by step against a row-level reference model; scenario pipeline: one run = one history of 3-12 selection kernels (slice, filter, take, concat, interleave, zip - array and scalar operands -, nullif, "
                "shift) over a pool of arrays of one generated type (list views included) - every result is validated, compared with the row-by-row definition and put back into the pool, so the physical layouts one kernel "
                "produces (sliced, offset children, merged dictionaries) are the next kernel's input; a run is non-trivial when it executed at least one operation; distinct = distinct hash of (op sequence, "
                "per-op row counts, filter class, target, limit)",
        "required_probes": ["probe.coalesce.sparse_copy", "probe.coalesce.materialised_filter", "probe.coalesce.bypass_history", "probe.pipeline.interleave", "probe.pipeline.zip", "probe.pipeline.nullif", "probe.pipeline.shift"],
        "components": {
            "real": ["arrow_select::coalesce::BatchCoalescer and its InProgressArray implementations", "arrow_select::{filter, take, concat, interleave, zip, nullif, window::shift} and Array::slice, over every generated type (nested, dictionary, view, decimal, ...)"],
            "stub": ["producer and consumer tasks (seeded scheduler decides pushes vs drains)", "the operator pipeline (seeded choice of operator, operands, predicates, indices)"],
            "not_run": ["merge, dictionary garbage collection, the record-batch forms other than through the coalescer", "union and run-end encoded operands in the pipeline"],
        },
        "level_text": "seeded exploration of producer/consumer histories of the stateful BatchCoalescer and of operator-pipeline histories of the selection kernels against an executable row-level reference "
                      "model, checked after every step (observers, validity, rows) and over the whole history (conservation, order, batch sizes); sampling, not proof",
        "design_ref": "DESIGN.md section 4 (C03), sections 11.7 and 12",
        "level_note": "the coalescer sentence of C03 is a history property proper; the per-kernel sentence is a pure-function claim that this technique does not decide in general - the pipeline scenario checks the "
                      "kernels only along seeded operation histories (inputs are whatever earlier kernels produced), without any claim of covering their type x selectivity space; "
                      "trusted: in-tree simulator, value extraction through arrow's safe accessors, ArrayData::validate_full",
        "technique": "deterministic simulation: seeded producer/consumer schedule over a stateful buffer and seeded operator histories over a pool of arrays, reference-model refinement check after every step, tape replay + shrinking",
        "assumptions": TRUSTED + [
            "ArrayData::validate_full is trusted as the validity oracle for emitted batches",
            "8-bit dictionary keys are excluded: concat may legitimately fail with a key-overflow error",
            "a null index / null predicate / shifted-in slot denotes a null row; union and Null-typed operands (which have no such row) are excluded from the pipeline",
        ],
    },
    "C04": {
        "crate": "checks",
        "bin": "c04_ipc",
        "level": "exploration",
        "rule": "one run = one generated schema (every arrow type incl. nested / view / run-end / union, schema and field metadata, zero-column schemas) plus 0-2 history-dictionary columns "
                "(top level, inside a struct, inside a list) whose dictionary the harness evolves batch by batch (same pointer / equal copy / extension / replacement / shrink), 1-4 batches (empty, sliced), "
                "tape-chosen IpcWriteOptions (alignment, V4/V5, legacy, LZ4/ZSTD, Resend/Delta) and, for Flight, max message size from 1 byte, Hydrate/Resend, schema supplied or not; written by the real "
                "writer over a sink with short writes / Interrupted, read back by the real reader over a source with short reads / Interrupted (file, stream: with a tape-chosen projection; stream also through "
                "StreamDecoder under a tape-chosen chunk schedule; Flight: encoder -> prost encode/decode -> decoder on the manual executor with Pending patterns on the input stream and the channel); "
                "compared with the single-copy log of logical rows; distinct = distinct (path, batches, dictionary history length / message limit)",
        "required_probes": ["probe.dict.delta_history", "probe.dict.replacement_history", "probe.dict.same_pointer", "probe.dict.equal_copy", "probe.dict.nested_history_column", "probe.empty_batch",
                            "probe.file.history_refused", "probe.projection", "probe.stream_decoder", "probe.stream_encoder", "probe.flight.batches_split", "probe.flight.pending_seen", "probe.flight.resend", "probe.flight.hydrate"],
        "components": {
            "real": ["arrow_ipc::writer::{FileWriter, StreamWriter, StreamEncoder, IpcDataGenerator, DictionaryTracker}", "arrow_ipc::reader::{FileReader, StreamReader, StreamDecoder} (with projection)",
                     "arrow_flight::encode::{FlightDataEncoderBuilder, FlightDataEncoder}", "arrow_flight::decode::{FlightRecordBatchStream, FlightDataDecoder}", "prost encode / decode of every FlightData message", "lz4 / zstd codecs"],
            "stub": ["sinks and sources (SimSink / SimSource, benign faults only: short transfers, Interrupted)", "the chunk producer for StreamDecoder", "the Flight input stream and the gRPC hop (ordered, reliable, Pending on a seeded pattern)", "manual executor"],
            "not_run": ["tonic / hyper transport, FlightClient / FlightService", "hard I/O faults (C18)", "StreamDecoder on schemas with a dense union (known C14 finding: misaligned offsets panic under chunking)"],
        },
        "level_text": "seeded exploration of batch histories with per-field dictionary evolution, write options and benign transport schedules through the IPC file / stream writers, the stream encoder and the Flight "
                      "encoder and back through the matching readers, against a single-copy log of logical rows and a model of which dictionary histories the file format can represent; sampling, not proof",
        "design_ref": "DESIGN.md section 4 (C04), section 11",
        "level_note": "the file writer may refuse a history the file format cannot represent (replacement; extension without delta handling) - accepted, and an accepted one must read back correctly; Flight is compared on "
                      "concatenated rows and on the schema with dictionary encodings removed (Hydrate); message loss / reordering are not injected (gRPC is ordered and reliable); tonic transport is not run; "
                      "trusted: in-tree simulator and executor, row extraction, ArrayData::validate_full",
        "technique": "deterministic simulation: seeded batch / dictionary histories through stateful writers and readers, benign-fault transports and Pending schedules owned by the simulator, reference = single-copy log; tape replay + shrinking",
        "assumptions": TRUSTED + [
            "dictionary- and run-end-encoded columns are compared by the values they denote",
            "names, types, nullability and metadata of every (nested) field are compared; dict_id / dict_is_ordered are not",
            "ArrayData::validate_full is trusted as the validity oracle for returned batches",
        ],
    },
    "C05": {
        "crate": "checks",
        "bin": "c05_parquet_rt",
        "level": "exploration",
        "max_skip_fraction": 0.10,
        "rule": "one run = one logical table (0-160 rows; primitive, decimal, temporal, byte / view / fixed, dictionary, struct / list / large-list / fixed-size-list / map nesting up to depth 3, nulls at every level, NaN "
                "payloads, extreme values) written under a tape-chosen history (consecutive slices of one batch passed to write(), explicit flush() after some, close()) and configuration (format version, dictionary on/off "
                "and tiny dictionary page limit, data page size / row limits, write batch size, row-group row limit, codec, statistics level, bloom filter, per-column non-default encodings), serially through ArrowWriter "
                "or through one ArrowColumnWriter per leaf run as cooperative tasks (a seeded scheduler picks which worker encodes its next leaf and in which order workers close; chunks appended in schema order), read "
                "back with a tape-chosen batch size and compared with the generated logical rows; distinct = distinct (mode, history, scheduler decisions)",
        "required_probes": ["probe.several_row_groups", "probe.dictionary_fallback_in_chunk", "probe.explicit_flush", "probe.page_store_spill", "probe.interleaved_column_writers", "probe.enc.delta_length_byte_array", "probe.enc.delta_binary_packed", "probe.enc.byte_stream_split"],
        "components": {
            "real": ["parquet::arrow::ArrowWriter, ArrowRowGroupWriterFactory, ArrowColumnWriter, compute_leaves, ArrowColumnChunk::append_to_row_group, SerializedFileWriter", "all value / level encoders and decoders, codecs",
                     "ParquetRecordBatchReaderBuilder / ParquetRecordBatchReader"],
            "stub": ["the caller's write history", "the column-writer workers' scheduler (cooperative tasks instead of threads)"],
            "not_run": ["real threads for the column writers", "content-defined chunking", "run-end encoded columns", "AsyncArrowWriter (I/O faults on it are C18's matter)"],
        },
        "level_text": "seeded exploration of write histories, writer configurations and column-writer schedules against the logical rows the table was generated from (the oracle never uses arrow's ==); sampling, not proof",
        "design_ref": "DESIGN.md section 4 (C05), sections 11 and 12",
        "level_note": "zero-width fixed-size types are exercised in a scenario of their own (the writer's panic on them is a known finding); run-end encoded columns and CDC are not exercised (list views are, nested too); a quarter of the serial runs route completed pages through a spill store with opaque non-dense keys; "
                      "the column writers run as cooperative tasks on one thread (their interleaving is the scheduler's, not the OS's); returned batches must also pass ArrayData::validate_full (trusted)",
        "technique": "deterministic simulation: seeded write histories and a seeded scheduler over independent column-writer tasks, reference = the logical rows the data was generated from; tape replay + shrinking",
        "assumptions": TRUSTED + [
            "per-column encodings are chosen only where legal for the column's physical type",
            "dictionary columns are compared by the values they denote; floats by bit pattern",
            "ArrayData::validate_full is trusted as the validity oracle for returned batches",
        ],
    },
    "C08": {
        "crate": "checks",
        "bin": "c08_corrupt",
        "level": "exploration",
        "stall_s": 120,
        "max_skip_fraction": 0.10,
        "rule": "one run = one generated workload written fault-free by the real writer, then 48 damaged copies of those bytes (12 for the IPC file reader, 192 for Variant), each produced by 1-3 faults of the simulated disk - bit flip, stuck byte, "
                "truncation, 4/8-byte little-endian field inflated or deflated, varint continuation bits, lost (zeroed) / misdirected (copied from elsewhere) / torn 512-byte sector, splice from a second file of the same "
                "format - placed uniformly, at the structure edges the writer's own write calls reveal, or in the tail; each copy is handed to the real safe reader; executions_of_real_code = reader executions; "
                "distinct = distinct (reader, file length, fault positions and kinds)",
        "required_probes": [],
        "components": {
            "real": ["arrow_ipc FileReader, StreamReader, StreamDecoder", "arrow_flight FlightRecordBatchStream / FlightDataDecoder (damaged header / body of one message)",
                     "parquet ParquetRecordBatchReader over all codecs / page versions / dictionary settings / page index, ParquetMetaDataReader, ParquetMetaDataPushDecoder",
                     "arrow_avro OCF Reader (all codecs)", "arrow_csv Reader, arrow_json Reader", "parquet_variant::Variant::try_new + full traversal (field_name, get, iter)", "the real writers that produce the inputs"],
            "stub": ["the disk (SimDisk corruptor); sinks and sources are fault-free here"],
            "not_run": ["Avro single-object decoder", "IPC FileDecoder", "Parquet files with encryption", "wholly random byte strings (every input is a damaged valid file)"],
        },
        "level_text": "seeded exploration of storage faults (single and few-fault corruptions, structure-biased) on files from the real writers of ten reader front ends; oracle: Err, or Ok with batches that pass full "
                      "validation; no panic, no process abort, no hang (step budgets + supervisor stall watchdog), no single allocation above 256 MiB; sampling, not proof",
        "design_ref": "DESIGN.md section 4 (C08), sections 11 and 12",
        "level_note": "what a damaged file should decode to is unconstrained - values are never compared; the validity oracle is RecordBatch / ArrayData::validate_full plus a full read through safe accessors (trusted); "
                      "a run stops at its first violation, so with the known findings listed in known_findings.txt some corruptions behind a known panic site are not reached in that run; hangs are attributed by the "
                      "supervisor's stall watchdog (120 s without progress in a worker whose runs take milliseconds, confirmed by re-execution in isolation)",
        "technique": "deterministic simulation with fault injection: stored bytes are damaged by the simulated disk's fault kinds at seeded, structure-biased positions; supervisor attributes panics, aborts and hangs to the run; tape replay + shrinking",
        "assumptions": TRUSTED + [
            "ArrayData::validate_full is trusted as the validity oracle",
            "a single allocation above 256 MiB while reading a file of a few KiB counts as memory unrelated to the input size (arrow-ipc's documented 64 MiB bounded pre-allocation stays below it)",
        ],
    },
    "C14": {
        "crate": "checks",
        "bin": "c14_chunk",
        "level": "exploration",
        "max_skip_fraction": 0.10,
        "rule": "one run = one generated input from the real writer decoded by the real push decoder under delivery schedules chosen by the simulator. CSV / JSON / IPC stream: one chunk (reference), EVERY single "
                "split point (stride n/3000 for long inputs), one byte at a time, 1-6 tape-chosen multi-splits with empty chunks where the protocol makes them no-ops, and the same again for a tape-chosen strict "
                "prefix (invalid input); the Avro single-object Decoder is driven the same way. Parquet metadata push decoder: whole file in one range (reference, also compared with the pull reader), exact answers only, the file pre-pushed as two consecutive buffers "
                "for EVERY split point, a tail prefetch of EVERY length, uniform consecutive buffers of 9 sizes, tape-chosen overlapping / duplicated buffers; for the valid file, a truncated file and a file with one "
                "flipped footer bit. Flight decoder: the encoder's message sequence and one invalid variant (schema repeated, schema missing, body truncated, message dropped) under EVERY Pending/Ready pattern "
                "(2^(n+1), capped at 4096 sampled patterns); executions_of_real_code = decoder executions; distinct = distinct (decoder, input length, rows, multi-split cut sets)",
        "required_probes": ["probe.reference_is_error", "probe.mangle.short_row", "probe.mangle.escape"],
        "components": {
            "real": ["arrow_csv::reader::Decoder (+ RecordDecoder), arrow_json::reader::Decoder (+ TapeDecoder), arrow_ipc::reader::StreamDecoder, driven by the loops documented on each type",
                     "arrow_avro::reader::Decoder with a SchemaStore over single-object-encoded streams from the real writer (chunk dependence there is a listed known finding)", "parquet::file::metadata::ParquetMetaDataPushDecoder + PushBuffers (reference: ParquetMetaDataReader)", "arrow_flight::decode::{FlightRecordBatchStream, FlightDataDecoder} (messages from the real FlightDataEncoder)",
                     "arrow_csv::Writer, arrow_json writers, arrow_ipc::writer::StreamWriter, parquet ArrowWriter (produce the inputs); arrow_csv::Reader, arrow_json::Reader, arrow_ipc StreamReader (pull readers compared on valid input)"],
            "stub": ["the producer that cuts the byte stream into chunks / chooses which byte ranges are buffered up front (seeded / enumerated schedule)", "the Flight message stream (Pending pattern enumerated) and the manual executor"],
            "not_run": ["arrow_avro OCF streaming through the Decoder (only single-object framing is driven)", "bit-flipped inputs for IPC (only truncation is used as invalid input there; CSV / JSON also get text-level edits: short rows, damaged escapes, stray structural characters)"],
        },
        "level_text": "seeded exploration of delivery schedules (every single split point enumerated per input, byte-at-a-time, random multi-splits with empty chunks; every two-buffer split and every tail prefetch of a Parquet "
                      "file; every Pending/Ready pattern of a Flight message sequence) of five push decoders against their own one-delivery result and the pull reader; sampling of inputs, not proof",
        "design_ref": "DESIGN.md section 4 (C14), sections 11 and 12",
        "level_note": "covers the CSV, JSON, IPC stream, Avro single-object, Parquet metadata and Flight decoders (the Avro decoder's chunk dependence is a known finding, so every Avro run ends at it); flush is issued where the documented loop issues it (not at every "
                      "permitted point); a damaged input on which the decoder panics even in one delivery is counted and left to C08; trusted: in-tree simulator, row extraction, validate_full",
        "technique": "deterministic simulation: the input transport is a seam owned by the simulator, which enumerates / samples the delivery schedule; reference = single delivery; tape replay + shrinking",
        "assumptions": TRUSTED + [
            "the documented driver loop of each decoder is the protocol; empty chunks are sent mid-stream only to the JSON and IPC decoders (for CSV an empty buffer means end of input)",
            "when both schedules fail, only the prefix relation between the rows emitted before the error is required (an error found at flush discards that batch)",
            "StreamDecoder::with_require_alignment stays at its default (false): with it the outcome legitimately depends on where the caller's chunk happens to be aligned",
            "Parquet metadata is compared through its Debug rendering (NaN statistics make == false on identical metadata)",
        ],
    },
    "C15": {
        "crate": "checks",
        "bin": "c15_pq_io",
        "level": "exploration",
        "max_skip_fraction": 0.10,
        "rule": "one run = one generated Parquet file (unique row-id column + generated flat/nested columns, 1-7 row groups, small pages, tape-chosen writer properties) and one option set "
                "(projection by leaves or roots, row-group subset/order, RowSelection, 0-3 row-id predicates with declared extra columns and NULL results, offset, limit, batch size, selection policy, "
                "predicate-cache size, page index on/off); the sync reader is the reference; the scenario's front end is then executed under 2-4 simulator-chosen I/O schedules and compared row by row; "
                "executions_of_real_code = front-end executions; a run is non-trivial when its reference succeeded; distinct = distinct (front end, file length, result rows, delivery modes, completion orders)",
        "required_probes": ["probe.async.pending_seen", "probe.async.vectored_fetch", "probe.async.metadata_fetched", "probe.async.row_group_reader_drained_late", "probe.push.supply_superset",
                            "probe.push.supply_partial", "probe.push.supply_duplicates", "probe.push.early_whole_file", "probe.push.rebuilt_at_boundary", "probe.push.reader_drained_late",
                            "probe.with_predicates", "probe.with_row_selection", "probe.reference_has_rows"],
        "components": {
            "real": ["parquet::arrow::arrow_reader::ParquetRecordBatchReaderBuilder (reference)", "ParquetRecordBatchStreamBuilder / ParquetRecordBatchStream::{poll_next, next_row_group}",
                     "the blanket AsyncFileReader for tokio AsyncRead + AsyncSeek", "ParquetPushDecoderBuilder / ParquetPushDecoder::{try_decode, try_next_reader, push_ranges, clear_all_ranges, into_builder}",
                     "ParquetMetaDataPushDecoder, ParquetMetaDataReader::{load_and_finish, load_via_suffix_and_finish}", "RowGroupReaderBuilder, RemainingRowGroups, PushBuffers, InMemoryRowGroup, predicate cache",
                     "ArrowWriter (produces the files)"],
            "stub": ["SimAsyncFile (AsyncFileReader: per-fetch futures completed by the seeded scheduler, vectored or per-range, metadata supplied or fetched)",
                     "SimAsyncSource (AsyncRead + AsyncSeek with Pending and short reads)", "manual executor (no tokio runtime, lost wake-ups detected)", "the range supplier of the push decoder"],
            "not_run": ["ParquetObjectReader / object_store", "SpawnedReader (real threads)", "cancellation of next_row_group futures (caller behaviour, not I/O behaviour)", "virtual columns, encryption"],
        },
        "level_text": "seeded exploration of I/O schedules (Pending/ready patterns and completion orders of fetch futures; per-range vs vectored fetch; metadata supplied vs fetched; for the push decoder "
                      "exact / shuffled / one-call-per-range / superset / whole-file / duplicate / extra / partial deliveries, early deliveries, eviction of staged ranges, deferred draining of row-group readers, "
                      "into_builder+build at row-group boundaries) of three Parquet front ends against the sync reader on the same file and options; sampling, not proof",
        "design_ref": "DESIGN.md section 4 (C15), section 11",
        "level_note": "the reference is the sync reader on the same file and options (whether that equals post-filtering is C06, not decided here); ParquetObjectReader, SpawnedReader and cancellation are not exercised; "
                      "'sufficient' is checked as: a request repeated unchanged more than (#predicates+2) times although answered in full each time, an empty request, or more request rounds than a bound "
                      "proportional to row groups x predicates; trusted: in-tree simulator and executor, row extraction, ArrayData::validate_full",
        "technique": "deterministic simulation: the AsyncFileReader / AsyncRead seams and the push decoder's range supplier are owned by a seeded scheduler (manual executor, no runtime); reference = sync reader; tape replay + shrinking",
        "assumptions": TRUSTED + [
            "the sync reader's rows for the same file and options are the truth C15 compares against",
            "row-group lists contain no duplicates and a RowSelection covers exactly the rows of the selected row groups (legal inputs only)",
            "each requested range is delivered inside one supplied buffer (the non-coalescing PushBuffers contract); a range is never delivered in pieces",
            "ArrayData::validate_full is trusted as the validity oracle for returned batches",
        ],
    },
    "C16": {
        "crate": "light",
        "bin": "c16_own",
        "level": "exploration",
        "miri": {"package": "c16_miri", "workloads_quick": 6, "seeds_quick": 64, "workloads_thorough": 24, "seeds_thorough": 128, "preemption_rate": 0.05},
        "rule": "stage 1 (tape-driven, single caller thread): one run = one history of 4-44 ownership operations on a pool of handles (new standard / custom-owner region, clone, word slice, wrap in Int32Array, "
                "bit view as BooleanBuffer, BooleanArray with a validity mask at its own bit offset, into_mutable -> mutate -> freeze, into_vec, unary_mut / into_builder, &= |= ^=, claim on a shared "
                "TrackingMemoryPool, export and import over the C Data Interface, a round trip of 1-3 arrays through the C Stream Interface, drop; final drops in a tape-chosen order) checked after EVERY step against a model of regions (visible bytes, release counter of "
                "custom owners, pool.used()); stage 2 (Miri): per workload seed, 2-3 real threads run seeded operation lists over buffers cloned from shared regions, a shared pool and a ring of channels "
                "carrying exported arrays, under N interpreter seeds (-Zmiri-many-seeds, preemption rate 0.05), each seed one repeatable instruction-level interleaving; Miri reports data races, use after "
                "free, double free and leaks, the scenario asserts visible bytes, import equality, release counts and pool.used() == 0 at the final quiescent point; evaluations = stage-1 histories; "
                "distinct = distinct operation sequences",
        "required_probes": ["probe.own.custom_region", "probe.own.into_mutable_ok", "probe.own.into_mutable_declined", "probe.own.into_vec_ok", "probe.own.unary_mut_ok", "probe.own.unary_mut_declined",
                            "probe.own.bitop_in_place", "probe.own.bitop_copied", "probe.own.claimed", "probe.own.exported", "probe.own.imported", "probe.own.imported_boolean_array", "probe.own.stream_roundtrip", "probe.own.reclaimed_in_other_pool", "probe.own.exported_dictionary", "probe.own.imported_dictionary"],
        "components": {
            "real": ["arrow_buffer::{Buffer, MutableBuffer, Bytes, BooleanBuffer, NullBuffer, ScalarBuffer, TrackingMemoryPool} (feature pool)", "arrow_array::{Int32Array, BooleanArray, DictionaryArray<Int8>}::{unary_mut, into_builder, to_data}", "two TrackingMemoryPools (a claim in the other pool moves a region's reservation)",
                     "arrow_array::ffi::{to_ffi, from_ffi}, arrow_data::ffi::FFI_ArrowArray, arrow_schema::ffi::FFI_ArrowSchema (release callbacks are Rust, so Miri executes them)",
                     "arrow_array::ffi_stream::{FFI_ArrowArrayStream, ArrowArrayStreamReader} (stage 1: arrays moved into a stream, exported, imported, drained)"],
            "stub": ["the memory owner (custom Allocation with release counter, 0xDD scribble and quarantine)", "the foreign consumer of exported structs (another handle / another thread)", "stage 2: Miri's interpreter-owned scheduler"],
            "not_run": ["GenericByteArray::into_builder", "shuttle (std Arc has no scheduling points: API-granularity interleaving equals the single-threaded histories of stage 1)"],
        },
        "level_text": "seeded exploration of ownership histories against an executable region model checked after every step (single caller thread, millions of histories), plus seeded instruction-level "
                      "interleavings of several caller threads under the Miri interpreter with its race / use-after-free / double-free / leak detection; sampling, not proof",
        "design_ref": "DESIGN.md section 4 (C16), sections 11 and 12",
        "level_note": "in-place success is only accepted when the model says the handle was unique, zero-offset and natively allocated (declining is always accepted); pool accounting of a region that went through an in-place "
                      "kernel is not predicted (only a lower bound is checked); binary in-place kernels (binary_mut / try_binary_mut, right operand = peer handle, alias of the left operand, or harness memory) are exercised in stage 1 only; the C Stream Interface only in stage 1; Miri runs cover small scenarios (2-3 threads, 8-19 ops each); "
                      "trusted: in-tree simulator, the region model, Miri",
        "technique": "deterministic simulation: seeded operation histories over a pool of handles against a reference model (stage 1); seeded thread interleavings owned by the Miri interpreter with replay by (-Zmiri-seed, workload seed) (stage 2)",
        "assumptions": TRUSTED + [
            "the custom Allocation owner is released when its Drop runs; its memory stays mapped until the run ends (quarantine), so a dangling view reads 0xDD deterministically",
            "an empty array imports as empty buffers that reference nothing: the exporter may be released at once",
            "Miri's detection of undefined behaviour is trusted",
        ],
    },
    "C18": {
        "crate": "checks",
        "bin": "c18_iofault",
        "level": "fault_enumeration",
        "max_skip_fraction": 0.10,
        "rule": "one run = one generated workload (schema, 1-3 batches, writer/reader options) for one format; the fault-free write+read is the reference; then EVERY sink call k "
                "(write and flush) is failed in 6 variants (one-shot/persistent x drop/into_inner x Err/Ok(0)) and once with a single Interrupted and once with a single short write, EVERY source call k (read, seek, fill_buf, get_read, get_bytes) is failed "
                "one-shot and persistent and once with a single Interrupted and once with a single short read, EVERY PageStore put / take call (parquet_spill), EVERY prefix length 0..len of the produced file (<= 8 KiB; larger: write-call edges +-2 and a stride) is read back, the file left by each "
                "persistently failing writer is read back, and one tape-driven benign part (short reads/writes, bounded Interrupted) is run; evaluations = workloads, "
                "executions_of_real_code = writer or reader executions; a run is non-trivial when its reference succeeded; distinct = distinct (format, sink calls, file length)",
        "required_probes": ["probe.benign_write_ok", "probe.benign_read_ok", "probe.finish_attempted_after_failed_write", "probe.finish_ok_after_failed_write"],
        "components": {
            "real": ["arrow_ipc::writer::{FileWriter, StreamWriter} (plain and BufWriter-wrapped), arrow_ipc::reader::{FileReader, StreamReader} (plain and buffered)",
                     "parquet::arrow::ArrowWriter + SerializedFileWriter + TrackedWrite, ParquetRecordBatchReaderBuilder / ParquetMetaDataReader / SerializedFileReader over a ChunkReader",
                     "arrow_avro writer (OCF and single-object encoding), arrow_avro OCF Reader", "arrow_csv::{Writer, Reader}", "arrow_json::{LineDelimitedWriter, ArrayWriter, Reader}",
                     "parquet::arrow::AsyncArrowWriter over the blanket AsyncFileWriter for AsyncWrite; ParquetRecordBatchStream over the blanket AsyncFileReader for AsyncRead + AsyncSeek", "ArrowWriter with a PageStoreFactory (ArrowWriterOptions::with_page_store_factory)",
                     "the codecs these call (lz4, zstd, snappy, gzip, brotli, bzip2, xz, deflate)"],
            "stub": ["every sink (SimSink: Write), source (SimSource: Read+Seek, ChunkedBufRead: BufRead) and file (SimFile: ChunkReader)", "tokio AsyncWrite / AsyncRead + AsyncSeek faces of the same devices with seeded Pending (manual executor)", "the PageStore spill store (put / take fail at call k, non-dense keys)"],
            "not_run": ["object_store adapters, SpawnedReader, Avro SOE decoder (no Read-based reader)"],
        },
        "level_text": "per generated workload, exhaustive enumeration of the fault position (every sink call, every source call, every truncation length of small files) with seeded "
                      "sampling of workloads, options and benign-fault schedules; oracle: error reported, no panic/hang, accepted bytes are a prefix of the fault-free output, rows are a prefix of the fault-free rows; when the caller finishes a Parquet / IPC writer after a failed write and that reports success, the sink must read back as at least the acknowledged batches",
        "design_ref": "DESIGN.md section 4 (C18), sections 10-12",
        "level_note": "sync Read/Write/Seek/BufRead/ChunkReader seams, the tokio async faces of the Parquet writer / stream (scenario parquet_async) and the PageStore seam (parquet_spill); workloads are sampled (small ones, and *_big ones whose writes exceed the writers' internal 8 KiB buffers), fault positions are enumerated; "
                      "CSV truncation is not checked (a cut line is a valid shorter line); trusted: in-tree simulator, row extraction, ArrayData::validate_full; "
                      "runs whose fault-free reference fails are skipped and counted (no fault was injected, so they say nothing about C18)",
        "technique": "deterministic simulation with fault injection: instrumented sink/source, fault at call k for all k, truncation at every length, tape-driven short transfers and EINTR, tape replay + shrinking",
        "assumptions": TRUSTED + [
            "the fault-free read of the fault-free write is the truth for rows (write->read equality with the generated values is C05/C04/C17, not C18)",
            "ArrayData::validate_full is trusted as the validity oracle for returned batches",
            "an Interrupted error may be retried or surfaced; a clean Err under benign faults is not a C18 violation",
            "Avro OCF output is compared after rewriting the per-writer random sync marker to a fixed one",
        ],
    },
}


NOT_APPLICABLE = [
    {"property_id": "C01", "reason": "well-formedness of results of builders/kernels/conversions is a universal claim about pure functions of in-memory values; no seam, schedule, fault or shared state for a simulator to own (arrays returned by readers under injected faults are validated inside the C08/C14/C18 checks)"},
    {"property_id": "C02", "reason": "congruence of accessors, == and kernels across physical realisations relates two deterministic in-memory computations; there is no nondeterminism to control"},
    {"property_id": "C06", "reason": "pushdown == post-filter is a pure function of (file bytes, reader options); the part that depends on I/O behaviour is decided under C15"},
    {"property_id": "C07", "reason": "soundness of statistics, page indexes and bloom filters is a pure function of the values written and the writer configuration"},
    {"property_id": "C09", "reason": "completeness of validation is a predicate on in-memory layouts; pure"},
    {"property_id": "C10", "reason": "agreement of comparator, sort, rank, partition and comparison kernels is a pure-function claim"},
    {"property_id": "C11", "reason": "row-format order preservation, injectivity and inversion are pure; the converter keeps no state an external schedule could perturb"},
    {"property_id": "C12", "reason": "arithmetic / aggregate exactness is a pure-function claim"},
    {"property_id": "C13", "reason": "cast and text round-trip laws are pure-function claims"},
    {"property_id": "C17", "reason": "CSV/JSON/Avro write->read round trip and agreement with independent parsers quantify over inputs and options only; the transport-dependent behaviour of the same readers and writers is decided under C14 and C18"},
    {"property_id": "C19", "reason": "bit-mask primitives are pure functions of (bytes, offset, length)"},
    {"property_id": "C20", "reason": "string predicates and functions are pure"},
]

MANIFEST_TEXT = (
    "Technique family: deterministic simulation with fault injection. All checks run `./check <ID>`, which rebuilds the harness against /repo's "
    "working tree (RUSTFLAGS --cfg arrow_rs_verif), fans seeded runs out over 16 worker processes, re-executes a 2% sample in fresh processes "
    "(determinism recheck), shrinks and replays every violation, and rewrites evidence/<ID>.json. VERIF_SEED and VERIF_TIER are honoured. "
    "Exit 2 is a harness error and is never reported as a violation."
)
