"""Static description of each check: where its harness lives, the level it claims, what runs real code."""

TRUSTED = [
    "the in-tree simulator (/verif/sim/simcore): choice tape, seams, executor, shrinker",
    "extraction of results into the logical value tree through arrow's safe accessors (/verif/sim/gen)",
]

CHECKS = {
    "C03": {
        "crate": "light",
        "bin": "c03_coalesce",
        "level": "exploration",
        "rule": "one run = one seeded producer/consumer history over a BatchCoalescer (pushes with/without filter or indices, finishes, "
                "limit changes, drains at tape-chosen moments) checked step by step against a row-level reference model; a run is non-trivial "
                "when it executed at least one push; distinct = distinct hash of (op sequence, per-op row counts, filter class, target, limit)",
        "required_probes": ["probe.coalesce.sparse_copy", "probe.coalesce.materialised_filter", "probe.coalesce.bypass_history"],
        "components": {
            "real": ["arrow_select::coalesce::BatchCoalescer and its InProgressArray implementations", "filter / take_record_batch / concat as reached from the coalescer"],
            "stub": ["producer and consumer tasks (seeded scheduler decides pushes vs drains)"],
            "not_run": ["interleave, zip, merge, nullif, shift, dictionary GC (pure kernels; first sentence of C03 is not decided by this technique)"],
        },
        "assumptions": TRUSTED + [
            "ArrayData::validate_full is trusted as the validity oracle for emitted batches",
            "only the coalescer-history sentence of C03 is decided; per-kernel row-by-row equivalence is a pure-function claim",
            "8-bit dictionary keys are excluded: concat may legitimately fail with a key-overflow error",
        ],
    },
}
