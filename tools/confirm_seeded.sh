#!/bin/bash
# confirm_seeded.sh WT PATCH DEMO_SRC DEMO_DEST "DEMO_CMD" "TEST_CMD" [more TEST_CMD...]
# In scratch worktree WT (clean checkout of /repo HEAD):
#   without the patch: the demo passes; each TEST_CMD is run and its failing tests recorded (some need test data absent here);
#   with the patch: no test fails that did not fail without it, and the demo fails.
# Prints CONFIRMED or NOT-CONFIRMED. Leaves WT clean.
WT=$1; PATCH=$2; DEMO_SRC=$3; DEMO_DEST=$4; DEMO_CMD=$5; shift 5
export CARGO_TARGET_DIR=$WT/target CARGO_NET_OFFLINE=true
L=$(mktemp -d /tmp/confirm.XXXXXX)
cd "$WT" || exit 2
git checkout -q -- . && git clean -qfd -e out -e target
mkdir -p "$(dirname "$DEMO_DEST")" && cp "$DEMO_SRC" "$DEMO_DEST"
echo "--- demo without patch"; bash -c "$DEMO_CMD" > $L/demo_without.log 2>&1; r0=$?; grep -E "^test result" $L/demo_without.log | tail -2
rm -f "$DEMO_DEST"   # the demo must not count as an "existing test"
i=0
for t in "$@"; do
  i=$((i+1)); echo "--- existing tests without patch: $t"; bash -c "$t -- --test-threads 8" > $L/t${i}_without.log 2>&1
  grep -E "^test .* FAILED$|^test .* failed$" $L/t${i}_without.log | sort -u > $L/t${i}_without.failed
  grep -E "^test result" $L/t${i}_without.log | tail -3
done
git apply "$PATCH" || { echo "NOT-CONFIRMED: patch does not apply"; exit 1; }
ok=1; i=0
for t in "$@"; do
  i=$((i+1)); echo "--- existing tests with patch: $t"; bash -c "$t -- --test-threads 8" > $L/t${i}_with.log 2>&1
  grep -E "^test .* FAILED$|^test .* failed$" $L/t${i}_with.log | sort -u > $L/t${i}_with.failed
  grep -E "^test result" $L/t${i}_with.log | tail -3
  grep -q "^test result" $L/t${i}_with.log || { ok=0; echo "no test result with the patch (build failure?)"; tail -5 $L/t${i}_with.log; }
  new=$(comm -13 $L/t${i}_without.failed $L/t${i}_with.failed)
  [ -n "$new" ] && { ok=0; echo "tests failing only WITH the patch:"; echo "$new" | head; }
done
cp "$DEMO_SRC" "$DEMO_DEST"
echo "--- demo with patch"; bash -c "$DEMO_CMD" > $L/demo_with.log 2>&1; r1=$?; grep -E "^test result|panicked" $L/demo_with.log | tail -4
git checkout -q -- . && git clean -qfd -e out -e target
if [ $r0 -eq 0 ] && [ $r1 -ne 0 ] && [ $ok -eq 1 ]; then echo "CONFIRMED demo_without=pass demo_with=fail no_new_failing_existing_tests (logs $L)"; else echo "NOT-CONFIRMED demo_without_rc=$r0 demo_with_rc=$r1 existing_ok=$ok (logs $L)"; exit 1; fi
