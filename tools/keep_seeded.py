#!/usr/bin/env python3
"""keep_seeded.py ID PROP SRC_DIR DEMO_FILE 'needs' 'confirmed-how' 'detected-by'  -> /verif/seeded/ID/{patch.diff,<demo>,notes.md,meta.json}"""
import sys, os, shutil, json
sid, prop, src, demo, needs, confirmed, detected = sys.argv[1:8]
dst = f"/verif/seeded/{sid}"
os.makedirs(dst, exist_ok=True)
shutil.copy(os.path.join(src, "patch.diff"), dst)
shutil.copy(os.path.join(src, demo), dst)
if os.path.exists(os.path.join(src, "notes.md")):
    shutil.copy(os.path.join(src, "notes.md"), dst)
json.dump({"id": sid, "breaks_property": prop, "demo": demo, "needs_to_manifest": needs, "confirmed": confirmed, "detected_by": detected,
           "origin": "independent sub-agent given only the property text and a scratch worktree"}, open(os.path.join(dst, "meta.json"), "w"), indent=1)
print("kept", dst)
