#!/usr/bin/env python3
"""mut.py FILE OLD NEW : replace exactly one occurrence of OLD by NEW in /repo/FILE (sensitivity experiments; revert with git checkout)."""
import sys
f, old, new = sys.argv[1:4]
p = '/repo/' + f
s = open(p).read()
n = s.count(old)
if n != 1:
    sys.exit(f"expected exactly one occurrence of the pattern in {f}, found {n}")
open(p, 'w').write(s.replace(old, new))
print("mutated", f)
