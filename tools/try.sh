#!/bin/sh
# try.sh CRATE BIN COUNT SCENARIO... : build BIN against /repo and run COUNT runs of each scenario (seed 1), print violation summary
crate=$1; bin=$2; count=$3; shift 3
cd /verif/sim || exit 2
RUSTFLAGS="--cfg arrow_rs_verif" cargo build --release --offline -p $crate --bin $bin 2>&1 | grep -E "^error" -A12
for s in "$@"; do
  ./target/release/$bin run --scenario $s --seed 1 --start 0 --count $count --out /tmp/try_$s.json --replay-dir /tmp/tryrep --max-violations 2 >/dev/null 2>/tmp/try_$s.err || { echo "$s: worker failed"; tail -3 /tmp/try_$s.err; }
  python3 - $s <<'PY'
import json,sys
from collections import Counter
s=sys.argv[1]
try:
    d=json.load(open(f'/tmp/try_{s}.json'))
except Exception as e:
    print(s,'no output',e); sys.exit()
c=Counter((v['class'],v['key']) for v in d['violations'])
print(s,'runs',d['evaluations'],'violating',len(d['violations']), dict(c) if c else '')
for v in d['violations'][:2]: print('   run',v['run'],v['detail'][:260])
PY
done
