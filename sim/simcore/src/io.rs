//! Simulated `Write` / `Read` / `Seek` / `BufRead` seams with tape-driven faults.

use crate::ctx::Ctx;
use std::io::{self, BufRead, ErrorKind, Read, Seek, SeekFrom, Write};
use std::sync::{Arc, Mutex};

pub const HARD_KINDS: &[ErrorKind] = &[
    ErrorKind::Other,
    ErrorKind::BrokenPipe,
    ErrorKind::StorageFull,
    ErrorKind::PermissionDenied,
    ErrorKind::TimedOut,
];

/// What the simulated device does, decided per call.
#[derive(Clone)]
pub struct Plan {
    /// hard error at this call index (write/flush resp. read/seek/fill_buf all count)
    pub hard_at: Option<usize>,
    pub hard_kind: ErrorKind,
    /// after firing, every later call fails too ("disk stays full")
    pub persistent: bool,
    /// `Ok(0)` from write instead of an error
    pub zero_write: bool,
    /// benign misbehaviour (short transfer, Interrupted) drawn from the tape with rate n/16
    pub benign_rate: u64,
    pub allow_interrupted: bool,
    /// one `Interrupted` at exactly this data call (write resp. read / fill_buf); flush and seek calls are not interrupted
    pub intr_at: Option<usize>,
    /// one short transfer (half of the request, at least one byte) at exactly this data call
    pub short_at: Option<usize>,
}

impl Plan {
    pub fn none() -> Self {
        Plan { hard_at: None, hard_kind: ErrorKind::Other, persistent: false, zero_write: false, benign_rate: 0, allow_interrupted: false, intr_at: None, short_at: None }
    }
    pub fn hard(at: usize, kind: ErrorKind, persistent: bool) -> Self {
        Plan { hard_at: Some(at), hard_kind: kind, persistent, ..Plan::none() }
    }
    pub fn benign(rate: u64, interrupted: bool) -> Self {
        Plan { benign_rate: rate, allow_interrupted: interrupted, ..Plan::none() }
    }
    pub fn interrupted_at(at: usize) -> Self {
        Plan { intr_at: Some(at), ..Plan::none() }
    }
    pub fn short_at(at: usize) -> Self {
        Plan { short_at: Some(at), ..Plan::none() }
    }
}

#[derive(Default)]
pub struct SinkState {
    pub data: Vec<u8>,
    pub calls: usize,
    /// offset of every write call the writer made (structure edges for the corruptor)
    pub write_offsets: Vec<usize>,
    pub hard_fired: usize,
    pub short_fired: usize,
    pub intr_fired: usize,
    pub flushes: usize,
    /// bytes held when the first hard fault fired
    pub len_at_first_hard: Option<usize>,
    intr_burst: usize,
}

#[derive(Clone)]
pub struct SimSink {
    pub st: Arc<Mutex<SinkState>>,
    plan: Plan,
    ctx: Ctx,
}

impl SimSink {
    pub fn new(ctx: &Ctx, plan: Plan) -> Self {
        SimSink { st: Arc::new(Mutex::new(SinkState::default())), plan, ctx: ctx.clone() }
    }
    pub fn state(&self) -> std::sync::MutexGuard<'_, SinkState> {
        self.st.lock().unwrap_or_else(|p| p.into_inner())
    }
    pub fn data(&self) -> Vec<u8> {
        self.state().data.clone()
    }
    pub fn calls(&self) -> usize {
        self.state().calls
    }
    pub fn hard_fired(&self) -> usize {
        self.state().hard_fired
    }

    fn hard(&self, st: &mut SinkState, idx: usize) -> Option<io::Error> {
        if let Some(at) = self.plan.hard_at {
            if idx == at || (self.plan.persistent && idx > at) {
                st.hard_fired += 1;
                if st.len_at_first_hard.is_none() {
                    st.len_at_first_hard = Some(st.data.len());
                }
                self.ctx.fault("sink.hard", idx as u64);
                return Some(io::Error::new(self.plan.hard_kind, "simulated sink failure"));
            }
        }
        None
    }
}

impl Write for SimSink {
    fn write(&mut self, buf: &[u8]) -> io::Result<usize> {
        let mut st = self.st.lock().unwrap_or_else(|p| p.into_inner());
        let idx = st.calls;
        st.calls += 1;
        if self.plan.zero_write {
            if let Some(at) = self.plan.hard_at {
                if (idx == at || (self.plan.persistent && idx > at)) && !buf.is_empty() {
                    st.hard_fired += 1;
                    if st.len_at_first_hard.is_none() {
                        st.len_at_first_hard = Some(st.data.len());
                    }
                    self.ctx.fault("sink.zero", idx as u64);
                    return Ok(0);
                }
            }
        } else if let Some(e) = self.hard(&mut st, idx) {
            return Err(e);
        }
        let mut n = buf.len();
        if self.plan.intr_at == Some(idx) && !buf.is_empty() {
            st.intr_fired += 1;
            self.ctx.fault("sink.interrupted_at", idx as u64);
            return Err(io::Error::new(ErrorKind::Interrupted, "simulated EINTR"));
        }
        if self.plan.short_at == Some(idx) && buf.len() > 1 {
            n = (buf.len() / 2).max(1);
            st.short_fired += 1;
            self.ctx.fault("sink.short_at", idx as u64);
        }
        if self.plan.benign_rate > 0 && !buf.is_empty() {
            if self.plan.allow_interrupted && st.intr_burst < 3 && self.ctx.chance(self.plan.benign_rate, 64, "sink.intr") {
                st.intr_burst += 1;
                st.intr_fired += 1;
                self.ctx.fault("sink.interrupted", idx as u64);
                return Err(io::Error::new(ErrorKind::Interrupted, "simulated EINTR"));
            }
            st.intr_burst = 0;
            if buf.len() > 1 && self.ctx.chance(self.plan.benign_rate, 16, "sink.short") {
                n = 1 + self.ctx.below(buf.len() - 1, "sink.short_len");
                st.short_fired += 1;
                self.ctx.fault("sink.short", idx as u64);
            }
        }
        let off = st.data.len();
        st.write_offsets.push(off);
        st.data.extend_from_slice(&buf[..n]);
        Ok(n)
    }

    fn flush(&mut self) -> io::Result<()> {
        let mut st = self.st.lock().unwrap_or_else(|p| p.into_inner());
        let idx = st.calls;
        st.calls += 1;
        st.flushes += 1;
        if !self.plan.zero_write {
            if let Some(e) = self.hard(&mut st, idx) {
                return Err(e);
            }
        }
        Ok(())
    }
}

#[derive(Default)]
pub struct SourceState {
    pub calls: usize,
    pub hard_fired: usize,
    pub short_fired: usize,
    pub intr_fired: usize,
    pub eof_calls: usize,
    pub hang: bool,
    intr_burst: usize,
}

/// `Read + Seek` over shared bytes. Clones share the fault state (one device), not the position.
pub struct SimSource {
    pub data: Arc<Vec<u8>>,
    pub pos: u64,
    pub st: Arc<Mutex<SourceState>>,
    plan: Plan,
    ctx: Ctx,
}

pub const EOF_CALL_BUDGET: usize = 10_000;

impl SimSource {
    pub fn new(ctx: &Ctx, data: Arc<Vec<u8>>, plan: Plan) -> Self {
        SimSource { data, pos: 0, st: Arc::new(Mutex::new(SourceState::default())), plan, ctx: ctx.clone() }
    }
    pub fn at(&self, pos: u64) -> Self {
        SimSource { data: self.data.clone(), pos, st: self.st.clone(), plan: self.plan.clone(), ctx: self.ctx.clone() }
    }
    pub fn state(&self) -> std::sync::MutexGuard<'_, SourceState> {
        self.st.lock().unwrap_or_else(|p| p.into_inner())
    }
    pub fn hard_fired(&self) -> usize {
        self.state().hard_fired
    }
    pub fn hang(&self) -> bool {
        self.state().hang
    }
    pub fn calls(&self) -> usize {
        self.state().calls
    }
    /// Some(err) if this call must fail hard.
    pub fn gate(&self) -> Option<io::Error> {
        let mut st = self.st.lock().unwrap_or_else(|p| p.into_inner());
        let idx = st.calls;
        st.calls += 1;
        if let Some(at) = self.plan.hard_at {
            if idx == at || (self.plan.persistent && idx > at) {
                st.hard_fired += 1;
                self.ctx.fault("source.hard", idx as u64);
                return Some(io::Error::new(self.plan.hard_kind, "simulated source failure"));
            }
        }
        None
    }
    /// how many bytes of `want` this call delivers (>=1 when want>=1), or Interrupted
    fn benign(&self, want: usize) -> io::Result<usize> {
        if want == 0 {
            return Ok(want);
        }
        let mut st = self.st.lock().unwrap_or_else(|p| p.into_inner());
        // the device call being served is the one `gate` just counted
        let idx = st.calls.saturating_sub(1);
        if self.plan.intr_at == Some(idx) {
            st.intr_fired += 1;
            self.ctx.fault("source.interrupted_at", idx as u64);
            return Err(io::Error::new(ErrorKind::Interrupted, "simulated EINTR"));
        }
        if self.plan.short_at == Some(idx) && want > 1 {
            st.short_fired += 1;
            self.ctx.fault("source.short_at", idx as u64);
            return Ok((want / 2).max(1));
        }
        if self.plan.benign_rate == 0 {
            return Ok(want);
        }
        if self.plan.allow_interrupted && st.intr_burst < 3 && self.ctx.chance(self.plan.benign_rate, 64, "src.intr") {
            st.intr_burst += 1;
            st.intr_fired += 1;
            self.ctx.fault("source.interrupted", st.calls as u64);
            return Err(io::Error::new(ErrorKind::Interrupted, "simulated EINTR"));
        }
        st.intr_burst = 0;
        if want > 1 && self.ctx.chance(self.plan.benign_rate, 16, "src.short") {
            st.short_fired += 1;
            self.ctx.fault("source.short", st.calls as u64);
            return Ok(1 + self.ctx.below(want - 1, "src.short_len"));
        }
        Ok(want)
    }
}

impl Read for SimSource {
    fn read(&mut self, buf: &mut [u8]) -> io::Result<usize> {
        if let Some(e) = self.gate() {
            return Err(e);
        }
        let len = self.data.len() as u64;
        if self.pos >= len || buf.is_empty() {
            if !buf.is_empty() {
                let mut st = self.st.lock().unwrap_or_else(|p| p.into_inner());
                st.eof_calls += 1;
                if st.eof_calls > EOF_CALL_BUDGET {
                    st.hang = true;
                    return Err(io::Error::new(ErrorKind::Other, "simulator: hang budget exceeded after EOF"));
                }
            }
            return Ok(0);
        }
        let avail = ((len - self.pos) as usize).min(buf.len());
        let n = self.benign(avail)?;
        let p = self.pos as usize;
        buf[..n].copy_from_slice(&self.data[p..p + n]);
        self.pos += n as u64;
        Ok(n)
    }
}

impl Seek for SimSource {
    fn seek(&mut self, pos: SeekFrom) -> io::Result<u64> {
        if let Some(e) = self.gate() {
            return Err(e);
        }
        let len = self.data.len() as i128;
        let new = match pos {
            SeekFrom::Start(p) => p as i128,
            SeekFrom::End(d) => len + d as i128,
            SeekFrom::Current(d) => self.pos as i128 + d as i128,
        };
        if new < 0 {
            return Err(io::Error::new(ErrorKind::InvalidInput, "seek before start"));
        }
        self.pos = new as u64;
        Ok(self.pos)
    }
}

/// `BufRead` whose `fill_buf` returns a tape-chosen non-empty prefix of the remaining bytes.
pub struct ChunkedBufRead {
    src: SimSource,
    /// explicit cut points (absolute offsets, ascending); when empty, chunk lengths come from the tape
    cuts: Vec<usize>,
    cur_end: usize,
    max_chunk: usize,
    ctx: Ctx,
}

impl ChunkedBufRead {
    pub fn new(ctx: &Ctx, src: SimSource, cuts: Vec<usize>, max_chunk: usize) -> Self {
        ChunkedBufRead { src, cuts, cur_end: 0, max_chunk: max_chunk.max(1), ctx: ctx.clone() }
    }
    pub fn source(&self) -> &SimSource {
        &self.src
    }
}

impl Read for ChunkedBufRead {
    fn read(&mut self, buf: &mut [u8]) -> io::Result<usize> {
        let n = {
            let avail = self.fill_buf()?;
            let n = avail.len().min(buf.len());
            buf[..n].copy_from_slice(&avail[..n]);
            n
        };
        self.consume(n);
        Ok(n)
    }
}

impl BufRead for ChunkedBufRead {
    fn fill_buf(&mut self) -> io::Result<&[u8]> {
        let pos = self.src.pos as usize;
        let len = self.src.data.len();
        if pos >= self.cur_end {
            // a new device call
            if let Some(e) = self.src.gate() {
                return Err(e);
            }
            if pos >= len {
                let mut st = self.src.st.lock().unwrap_or_else(|p| p.into_inner());
                st.eof_calls += 1;
                if st.eof_calls > EOF_CALL_BUDGET {
                    st.hang = true;
                    return Err(io::Error::new(ErrorKind::Other, "simulator: hang budget exceeded after EOF"));
                }
                return Ok(&[]);
            }
            // Interrupted (one-shot at a call index, or tape-driven bursts) before any byte is handed out
            let n = self.src.benign(len - pos)?;
            let end = if let Some(c) = self.cuts.iter().find(|c| **c > pos) {
                (*c).min(len)
            } else if !self.cuts.is_empty() {
                len
            } else {
                (pos + 1 + self.ctx.below(self.max_chunk.min(len - pos), "bufread.chunk")).min(len)
            };
            self.cur_end = end.min(pos + n.max(1));
        }
        Ok(&self.src.data[pos..self.cur_end])
    }
    fn consume(&mut self, amt: usize) {
        self.src.pos += amt as u64;
    }
}

/// Compare what a sink accepted with the fault-free output.
pub fn is_prefix(part: &[u8], whole: &[u8]) -> bool {
    part.len() <= whole.len() && &whole[..part.len()] == part
}

pub fn first_diff(a: &[u8], b: &[u8]) -> usize {
    a.iter().zip(b.iter()).position(|(x, y)| x != y).unwrap_or(a.len().min(b.len()))
}

/// Writer-side helper: a `Write` that discards nothing and never fails.
pub fn plain_sink(ctx: &Ctx) -> SimSink {
    SimSink::new(ctx, Plan::none())
}

impl std::fmt::Debug for SimSink {
    fn fmt(&self, f: &mut std::fmt::Formatter<'_>) -> std::fmt::Result {
        write!(f, "SimSink")
    }
}
impl std::fmt::Debug for SimSource {
    fn fmt(&self, f: &mut std::fmt::Formatter<'_>) -> std::fmt::Result {
        write!(f, "SimSource@{}", self.pos)
    }
}
