//! Counting / capping global allocator. Install in a harness binary with
//! `#[global_allocator] static A: simcore::alloc::CapAlloc = simcore::alloc::CapAlloc;`

use std::alloc::{GlobalAlloc, Layout, System};
use std::sync::atomic::{AtomicUsize, Ordering::Relaxed};

static LIVE: AtomicUsize = AtomicUsize::new(0);
static PEAK: AtomicUsize = AtomicUsize::new(0);
static MAX_SINGLE: AtomicUsize = AtomicUsize::new(0);
/// requests above this are refused (null => the infallible path aborts; the supervisor attributes it)
static REFUSE_ABOVE: AtomicUsize = AtomicUsize::new(2 << 30);

pub struct CapAlloc;

#[inline]
fn on_alloc(size: usize) {
    let live = LIVE.fetch_add(size, Relaxed) + size;
    PEAK.fetch_max(live, Relaxed);
    MAX_SINGLE.fetch_max(size, Relaxed);
}

unsafe impl GlobalAlloc for CapAlloc {
    unsafe fn alloc(&self, l: Layout) -> *mut u8 {
        if l.size() > REFUSE_ABOVE.load(Relaxed) {
            MAX_SINGLE.fetch_max(l.size(), Relaxed);
            return std::ptr::null_mut();
        }
        let p = unsafe { System.alloc(l) };
        if !p.is_null() {
            on_alloc(l.size());
        }
        p
    }
    unsafe fn alloc_zeroed(&self, l: Layout) -> *mut u8 {
        if l.size() > REFUSE_ABOVE.load(Relaxed) {
            MAX_SINGLE.fetch_max(l.size(), Relaxed);
            return std::ptr::null_mut();
        }
        let p = unsafe { System.alloc_zeroed(l) };
        if !p.is_null() {
            on_alloc(l.size());
        }
        p
    }
    unsafe fn dealloc(&self, p: *mut u8, l: Layout) {
        LIVE.fetch_sub(l.size(), Relaxed);
        unsafe { System.dealloc(p, l) }
    }
    unsafe fn realloc(&self, p: *mut u8, l: Layout, new: usize) -> *mut u8 {
        if new > REFUSE_ABOVE.load(Relaxed) {
            MAX_SINGLE.fetch_max(new, Relaxed);
            return std::ptr::null_mut();
        }
        let q = unsafe { System.realloc(p, l, new) };
        if !q.is_null() {
            LIVE.fetch_sub(l.size(), Relaxed);
            on_alloc(new);
        }
        q
    }
}

pub fn reset() {
    PEAK.store(LIVE.load(Relaxed), Relaxed);
    MAX_SINGLE.store(0, Relaxed);
}
pub fn live() -> usize {
    LIVE.load(Relaxed)
}
/// peak live bytes since `reset`, minus the live bytes at reset time is the caller's business
pub fn peak() -> usize {
    PEAK.load(Relaxed)
}
pub fn max_single() -> usize {
    MAX_SINGLE.load(Relaxed)
}
pub fn set_refuse_above(n: usize) {
    REFUSE_ABOVE.store(n, Relaxed);
}
