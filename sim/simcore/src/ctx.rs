//! The choice tape and the per-run context (event log, counters, probes, violations).

use crate::rng::{fnv1a, mix, Rng};
use std::collections::BTreeMap;
use std::sync::{Arc, Mutex};

#[derive(Clone, Debug)]
pub struct Violation {
    /// oracle that fired, e.g. "swallowed_error", "panic", "wrong_rows"
    pub class: String,
    /// component / discriminator, e.g. "csv.writer/into_inner"; first path segment is the component
    pub key: String,
    pub detail: String,
    /// sub-case of an enumerated sweep in which it fired
    pub at: BTreeMap<String, u64>,
}

impl Violation {
    pub fn component(&self) -> &str {
        self.key.split('/').next().unwrap_or("")
    }
}

pub type R<T = ()> = Result<T, Violation>;

/// Restricts which enumerated sub-cases of a run are executed (replay: exactly the failing one;
/// shrinking: every index of the sweeps that were active when the violation fired).
#[derive(Clone, Debug, Default)]
pub struct Focus {
    pub exact: Option<BTreeMap<String, u64>>,
    pub labels: Option<std::collections::BTreeSet<String>>,
}

impl Focus {
    pub fn none() -> Self {
        Focus::default()
    }
    pub fn exact(m: BTreeMap<String, u64>) -> Self {
        Focus { exact: Some(m), labels: None }
    }
    pub fn labels_of(m: &BTreeMap<String, u64>) -> Self {
        Focus { exact: None, labels: Some(m.keys().cloned().collect()) }
    }
}

enum Mode {
    Explore(Rng),
    Replay { values: Vec<u64>, pos: usize },
}

pub struct Tape {
    mode: Mode,
    pub rec: Vec<(&'static str, u64, u64)>,
}

impl Tape {
    pub fn explore(seed: u64) -> Self {
        Tape { mode: Mode::Explore(Rng::new(seed)), rec: Vec::new() }
    }
    pub fn replay(values: Vec<u64>) -> Self {
        Tape { mode: Mode::Replay { values, pos: 0 }, rec: Vec::new() }
    }
    fn draw(&mut self, bound: u64, label: &'static str) -> u64 {
        let bound = bound.max(1);
        let v = match &mut self.mode {
            Mode::Explore(r) => r.below(bound),
            Mode::Replay { values, pos } => {
                let v = values.get(*pos).copied().unwrap_or(0);
                *pos += 1;
                if v >= bound {
                    bound - 1
                } else {
                    v
                }
            }
        };
        self.rec.push((label, bound, v));
        v
    }
}

struct Inner {
    tape: Tape,
    log_hash: u64,
    shape_hash: u64,
    record: bool,
    events: Vec<String>,
    counters: BTreeMap<String, u64>,
    nontrivial: bool,
    steps: u64,
    notes: BTreeMap<String, serde_json::Value>,
    focus: Focus,
    at: BTreeMap<String, u64>,
    tier_thorough: bool,
}

/// Cheap clonable handle; `Send + Sync` because some seams (parquet sinks, async readers) must be.
#[derive(Clone)]
pub struct Ctx(Arc<Mutex<Inner>>);

pub struct RunRecord {
    pub tape: Vec<(&'static str, u64, u64)>,
    pub log_hash: u64,
    pub shape_hash: u64,
    pub events: Vec<String>,
    pub counters: BTreeMap<String, u64>,
    pub nontrivial: bool,
    pub steps: u64,
    pub notes: BTreeMap<String, serde_json::Value>,
}

impl Ctx {
    pub fn new(tape: Tape, record: bool, focus: Focus, thorough: bool) -> Self {
        Ctx(Arc::new(Mutex::new(Inner {
            tape,
            log_hash: 0,
            shape_hash: 0,
            record,
            events: Vec::new(),
            counters: BTreeMap::new(),
            nontrivial: false,
            steps: 0,
            notes: BTreeMap::new(),
            focus,
            at: BTreeMap::new(),
            tier_thorough: thorough,
        })))
    }

    fn lock(&self) -> std::sync::MutexGuard<'_, Inner> {
        match self.0.lock() {
            Ok(g) => g,
            Err(p) => p.into_inner(),
        }
    }

    pub fn thorough(&self) -> bool {
        self.lock().tier_thorough
    }

    /// Uniform choice in `0..bound`; 0 must be the simplest alternative.
    pub fn draw(&self, bound: u64, label: &'static str) -> u64 {
        self.lock().tape.draw(bound, label)
    }
    pub fn below(&self, bound: usize, label: &'static str) -> usize {
        self.draw(bound as u64, label) as usize
    }
    /// Inclusive range.
    pub fn range(&self, lo: i64, hi: i64, label: &'static str) -> i64 {
        debug_assert!(hi >= lo);
        lo + self.draw((hi - lo) as u64 + 1, label) as i64
    }
    /// True with probability num/den; the tape value 0 means false.
    pub fn chance(&self, num: u64, den: u64, label: &'static str) -> bool {
        let v = self.draw(den, label);
        v >= den - num.min(den)
    }
    pub fn pick<'a, T>(&self, xs: &'a [T], label: &'static str) -> &'a T {
        &xs[self.below(xs.len(), label)]
    }
    /// Size biased towards small values and occasional large ones.
    pub fn size(&self, max: usize, label: &'static str) -> usize {
        match self.draw(8, label) {
            0..=3 => self.below(max.min(4) + 1, label),
            4..=6 => self.below(max.min(32) + 1, label),
            _ => self.below(max + 1, label),
        }
    }

    /// Record an event in the run log (hashed always; stored as text only when recording).
    pub fn ev(&self, tag: &str, a: u64, b: u64) {
        let mut g = self.lock();
        g.log_hash = mix(mix(fnv1a(g.log_hash, tag.as_bytes()), a), b);
        if g.record && g.events.len() < 4000 {
            g.events.push(format!("{tag} {a} {b}"));
        }
    }
    pub fn ev_bytes(&self, tag: &str, bytes: &[u8]) {
        let h = fnv1a(0, bytes);
        self.ev(tag, bytes.len() as u64, h);
    }
    /// An event that is part of the *shape* of the run (op sequence, fault fired, schedule choice).
    pub fn shape(&self, tag: &str, a: u64, b: u64) {
        {
            let mut g = self.lock();
            g.shape_hash = mix(mix(fnv1a(g.shape_hash, tag.as_bytes()), a), b);
        }
        self.ev(tag, a, b);
    }
    pub fn count(&self, name: &str, n: u64) {
        let mut g = self.lock();
        match g.counters.get_mut(name) {
            Some(v) => *v += n,
            None => {
                g.counters.insert(name.to_string(), n);
            }
        }
    }
    pub fn probe(&self, name: &str) {
        self.count(&format!("probe.{name}"), 1)
    }
    /// A fault of `kind` actually fired (not merely was scheduled).
    pub fn fault(&self, kind: &str, at: u64) {
        self.count(&format!("fault.{kind}"), 1);
        self.lock().nontrivial = true;
        self.shape(kind, at, 0);
    }
    pub fn nontrivial(&self) {
        self.lock().nontrivial = true;
    }
    pub fn step(&self) -> u64 {
        let mut g = self.lock();
        g.steps += 1;
        g.steps
    }
    pub fn steps(&self) -> u64 {
        self.lock().steps
    }
    pub fn note(&self, key: &str, v: serde_json::Value) {
        let mut g = self.lock();
        if g.notes.len() < 64 {
            g.notes.insert(key.to_string(), v);
        }
    }

    /// Indices of an enumerated sweep: all of `0..n` normally, only the focused one when replaying.
    pub fn sweep(&self, label: &str, n: usize) -> Vec<usize> {
        let g = self.lock();
        if let Some(f) = &g.focus.exact {
            return match f.get(label) {
                Some(v) if (*v as usize) < n => vec![*v as usize],
                _ => vec![],
            };
        }
        if let Some(l) = &g.focus.labels {
            if !l.contains(label) {
                return vec![];
            }
        }
        (0..n).collect()
    }
    /// Whether a non-enumerated part of the run (named `label`) is to be executed; marks it as current.
    pub fn part(&self, label: &str) -> bool {
        let mut g = self.lock();
        let on = match (&g.focus.exact, &g.focus.labels) {
            (Some(f), _) => f.contains_key(label),
            (None, Some(l)) => l.contains(label),
            _ => true,
        };
        if on {
            g.at.clear();
            g.at.insert(label.to_string(), 0);
        }
        on
    }
    pub fn set_at(&self, label: &str, k: u64) {
        self.lock().at.insert(label.to_string(), k);
    }
    pub fn clear_at(&self, label: &str) {
        self.lock().at.remove(label);
    }

    pub fn violation(&self, class: &str, key: &str, detail: String) -> Violation {
        let at = self.lock().at.clone();
        Violation { class: class.to_string(), key: key.to_string(), detail, at }
    }

    pub fn finish(&self) -> RunRecord {
        let mut g = self.lock();
        RunRecord {
            tape: std::mem::take(&mut g.tape.rec),
            log_hash: g.log_hash,
            shape_hash: g.shape_hash,
            events: std::mem::take(&mut g.events),
            counters: std::mem::take(&mut g.counters),
            nontrivial: g.nontrivial,
            steps: g.steps,
            notes: std::mem::take(&mut g.notes),
        }
    }
}
