//! simcore: the deterministic simulator shared by every check.
//!
//! One integer decides everything: a run is a pure function of (scenario, VERIF_SEED, run index),
//! or, in replay mode, of the recorded choice tape. Nothing here reads a clock or spawns a thread.

pub mod aio;
pub mod alloc;
pub mod ctx;
pub mod io;
pub mod rng;
pub mod runner;
pub mod shrink;

pub use ctx::{Ctx, Focus, Violation, R};
pub use rng::{fnv1a, splitmix64, Rng};
pub use runner::{main_with, Scenario};

/// Return early with a violation.
#[macro_export]
macro_rules! bail_v {
    ($ctx:expr, $class:expr, $key:expr, $($arg:tt)*) => {
        return Err($ctx.violation($class, $key, format!($($arg)*)))
    };
}
