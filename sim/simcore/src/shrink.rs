//! Generic minimisation over the choice tape (delta debugging; 0 is always the simplest choice).

use crate::ctx::{Focus, Tape, Violation};
use crate::runner::{run_one, Scenario};
use std::collections::BTreeMap;

const MAX_EXECS: u64 = 1500;

struct St<'a> {
    s: &'a Scenario,
    class: String,
    component: String,
    thorough: bool,
    execs: u64,
    best: Vec<u64>,
    focus: BTreeMap<String, u64>,
    t0: std::time::Instant,
}

impl St<'_> {
    fn out_of_budget(&self) -> bool {
        // exec budget is the real bound; wall clock is only a backstop and never changes a verdict
        self.execs >= MAX_EXECS || self.t0.elapsed().as_secs() > 90
    }
    /// Try a candidate; adopt it (normalised to the recorded tape) iff the same violation persists.
    fn attempt(&mut self, cand: Vec<u64>) -> bool {
        if self.out_of_budget() || cand == self.best {
            return false;
        }
        self.execs += 1;
        crate::runner::heartbeat();
        // the active sweeps are re-run completely, so a shrunk workload may fail at another index
        let out = run_one(self.s, Tape::replay(cand), false, Focus::labels_of(&self.focus), self.thorough);
        match out.violation {
            Some(v) if v.class == self.class && v.component() == self.component => {
                let mut rec: Vec<u64> = out.rec.tape.iter().map(|t| t.2).collect();
                while rec.last() == Some(&0) {
                    rec.pop();
                }
                if rec.len() < self.best.len() || (rec.len() == self.best.len() && rec < self.best) {
                    self.best = rec;
                    self.focus = v.at;
                    true
                } else {
                    false
                }
            }
            _ => false,
        }
    }
}

pub fn shrink(s: &Scenario, tape: Vec<u64>, v: &Violation, thorough: bool) -> (Vec<u64>, BTreeMap<String, u64>, u64) {
    let mut st = St { s, class: v.class.clone(), component: v.component().to_string(), thorough, execs: 0, best: tape, focus: v.at.clone(), t0: std::time::Instant::now() };
    loop {
        let mut progress = false;
        // 1. delete spans
        let mut size = (st.best.len() / 2).max(1);
        while size >= 1 && !st.out_of_budget() {
            let mut i = 0;
            while i + size <= st.best.len() && !st.out_of_budget() {
                let mut cand = st.best.clone();
                cand.drain(i..i + size);
                if st.attempt(cand) {
                    progress = true;
                } else {
                    i += size;
                }
            }
            if size == 1 {
                break;
            }
            size /= 2;
        }
        // 2. zero spans, then single entries
        let mut size = (st.best.len() / 4).max(1);
        while !st.out_of_budget() {
            let mut i = 0;
            while i < st.best.len() && !st.out_of_budget() {
                let end = (i + size).min(st.best.len());
                if st.best[i..end].iter().any(|x| *x != 0) {
                    let mut cand = st.best.clone();
                    for x in &mut cand[i..end] {
                        *x = 0;
                    }
                    if st.attempt(cand) {
                        progress = true;
                    }
                }
                i += size;
            }
            if size == 1 {
                break;
            }
            size /= 2;
        }
        // 3. halve / decrement
        let mut i = 0;
        while i < st.best.len() && !st.out_of_budget() {
            let x = st.best[i];
            if x > 1 {
                let mut cand = st.best.clone();
                cand[i] = x / 2;
                if st.attempt(cand) {
                    progress = true;
                    continue;
                }
            }
            if x > 0 {
                let mut cand = st.best.clone();
                cand[i] = x - 1;
                if st.attempt(cand) {
                    progress = true;
                    continue;
                }
            }
            i += 1;
        }
        if !progress || st.out_of_budget() {
            break;
        }
    }
    (st.best, st.focus, st.execs)
}
