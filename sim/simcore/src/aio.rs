//! Manual executor and asynchronous seams. No runtime, no threads, no clock: the tape decides
//! which pending I/O event completes next and when the root task is polled.

use crate::ctx::{Ctx, Violation};
use std::future::Future;
use std::io::{self, ErrorKind, SeekFrom};
use std::pin::Pin;
use std::sync::atomic::{AtomicBool, AtomicU64, Ordering};
use std::sync::{Arc, Mutex};
use std::task::{Context, Poll, Wake, Waker};

struct Op {
    id: u64,
    ready: bool,
    waker: Option<Waker>,
}

struct GateInner {
    ops: Vec<Op>,
    next_id: u64,
    fired: u64,
}

/// Registry of outstanding simulated I/O completions.
#[derive(Clone)]
pub struct Gate(Arc<Mutex<GateInner>>);

impl Default for Gate {
    fn default() -> Self {
        Self::new()
    }
}

impl Gate {
    pub fn new() -> Self {
        Gate(Arc::new(Mutex::new(GateInner { ops: Vec::new(), next_id: 0, fired: 0 })))
    }
    fn lock(&self) -> std::sync::MutexGuard<'_, GateInner> {
        self.0.lock().unwrap_or_else(|p| p.into_inner())
    }
    /// Register an I/O operation; the returned future completes once the scheduler fires it.
    pub fn op(&self) -> OpFuture {
        let mut g = self.lock();
        let id = g.next_id;
        g.next_id += 1;
        g.ops.push(Op { id, ready: false, waker: None });
        OpFuture { gate: self.clone(), id, done: false }
    }
    pub fn unfired(&self) -> usize {
        self.lock().ops.iter().filter(|o| !o.ready).count()
    }
    /// Fire the k-th unfired op.
    pub fn fire(&self, k: usize) {
        let w = {
            let mut g = self.lock();
            g.fired += 1;
            let mut i = 0;
            let mut w = None;
            for o in g.ops.iter_mut() {
                if !o.ready {
                    if i == k {
                        o.ready = true;
                        w = o.waker.take();
                        break;
                    }
                    i += 1;
                }
            }
            w
        };
        if let Some(w) = w {
            w.wake();
        }
    }
    pub fn fired(&self) -> u64 {
        self.lock().fired
    }
}

pub struct OpFuture {
    gate: Gate,
    id: u64,
    done: bool,
}

impl OpFuture {
    pub fn poll_op(&mut self, cx: &mut Context<'_>) -> Poll<()> {
        if self.done {
            return Poll::Ready(());
        }
        let mut g = self.gate.lock();
        let idx = g.ops.iter().position(|o| o.id == self.id);
        match idx {
            Some(i) if g.ops[i].ready => {
                g.ops.swap_remove(i);
                self.done = true;
                Poll::Ready(())
            }
            Some(i) => {
                g.ops[i].waker = Some(cx.waker().clone());
                Poll::Pending
            }
            None => {
                self.done = true;
                Poll::Ready(())
            }
        }
    }
}

impl Future for OpFuture {
    type Output = ();
    fn poll(mut self: Pin<&mut Self>, cx: &mut Context<'_>) -> Poll<()> {
        self.poll_op(cx)
    }
}

impl Drop for OpFuture {
    fn drop(&mut self) {
        if !self.done {
            let mut g = self.gate.lock();
            if let Some(i) = g.ops.iter().position(|o| o.id == self.id) {
                g.ops.swap_remove(i);
            }
        }
    }
}

struct Flag {
    woken: AtomicBool,
    wakes: AtomicU64,
}
impl Wake for Flag {
    fn wake(self: Arc<Self>) {
        self.woken.store(true, Ordering::SeqCst);
        self.wakes.fetch_add(1, Ordering::SeqCst);
    }
}

/// Drives one root task. `delay_bias` (0..=15) is how reluctant the scheduler is to complete I/O.
pub struct Executor {
    pub ctx: Ctx,
    pub gate: Gate,
    pub polls: u64,
    pub pendings: u64,
    pub spurious: u64,
    flag: Arc<Flag>,
    pub step_budget: u64,
    pub allow_spurious: bool,
}

impl Executor {
    pub fn new(ctx: &Ctx, gate: &Gate) -> Self {
        Executor {
            ctx: ctx.clone(),
            gate: gate.clone(),
            polls: 0,
            pendings: 0,
            spurious: 0,
            flag: Arc::new(Flag { woken: AtomicBool::new(true), wakes: AtomicU64::new(0) }),
            step_budget: 200_000,
            allow_spurious: true,
        }
    }

    /// Run `fut` to completion under the simulated schedule.
    pub fn block_on<F: Future>(&mut self, fut: F, what: &str) -> Result<F::Output, Violation> {
        let mut fut = std::pin::pin!(fut);
        self.flag.woken.store(true, Ordering::SeqCst);
        let waker = Waker::from(self.flag.clone());
        let mut steps = 0u64;
        loop {
            steps += 1;
            self.ctx.step();
            if steps > self.step_budget {
                return Err(self.ctx.violation("hang", &format!("{what}/step_budget"), format!("{what}: no completion within {} scheduler steps", self.step_budget)));
            }
            let woken = self.flag.woken.load(Ordering::SeqCst);
            let unfired = self.gate.unfired();
            // choose: poll (if woken), fire an op, or spurious poll
            let do_poll = if woken {
                // even when woken, I/O may complete first
                unfired == 0 || !self.ctx.chance(1, 4, "exec.io_before_poll")
            } else if unfired == 0 {
                return Err(self.ctx.violation(
                    "lost_wakeup",
                    &format!("{what}/pending_without_waker"),
                    format!("{what}: task returned Pending, no wake-up registered and no I/O outstanding after {} polls", self.polls),
                ));
            } else {
                self.allow_spurious && self.ctx.chance(1, 8, "exec.spurious")
            };
            if do_poll {
                if !woken {
                    self.spurious += 1;
                    self.ctx.shape("exec.spurious", self.polls, 0);
                }
                self.flag.woken.store(false, Ordering::SeqCst);
                self.polls += 1;
                let mut cx = Context::from_waker(&waker);
                match fut.as_mut().poll(&mut cx) {
                    Poll::Ready(v) => return Ok(v),
                    Poll::Pending => {
                        self.pendings += 1;
                    }
                }
            } else {
                let k = self.ctx.below(unfired, "exec.fire");
                if unfired > 1 {
                    self.ctx.nontrivial();
                }
                self.ctx.shape("exec.fire", k as u64, unfired as u64);
                self.gate.fire(k);
            }
        }
    }
}

/// tokio `AsyncWrite` sink with tape-driven `Pending`, short writes and errors.
pub struct SimAsyncSink {
    pub inner: crate::io::SimSink,
    gate: Gate,
    ctx: Ctx,
    pending: Option<OpFuture>,
    pub pending_rate: u64,
    pub shutdown_called: Arc<AtomicBool>,
}

impl SimAsyncSink {
    pub fn new(ctx: &Ctx, gate: &Gate, plan: crate::io::Plan, pending_rate: u64) -> Self {
        SimAsyncSink {
            inner: crate::io::SimSink::new(ctx, plan),
            gate: gate.clone(),
            ctx: ctx.clone(),
            pending: None,
            pending_rate,
            shutdown_called: Arc::new(AtomicBool::new(false)),
        }
    }
    /// Asynchronous face of an existing simulated sink (same device, same fault plan and counters).
    pub fn over(ctx: &Ctx, gate: &Gate, sink: crate::io::SimSink, pending_rate: u64) -> Self {
        SimAsyncSink { inner: sink, gate: gate.clone(), ctx: ctx.clone(), pending: None, pending_rate, shutdown_called: Arc::new(AtomicBool::new(false)) }
    }
    fn maybe_pending(&mut self, cx: &mut Context<'_>) -> bool {
        if let Some(op) = &mut self.pending {
            if op.poll_op(cx).is_pending() {
                return true;
            }
            self.pending = None;
            return false;
        }
        if self.pending_rate > 0 && self.ctx.chance(self.pending_rate, 16, "asink.pending") {
            self.ctx.fault("asink.pending", 0);
            let mut op = self.gate.op();
            if op.poll_op(cx).is_pending() {
                self.pending = Some(op);
                return true;
            }
        }
        false
    }
}

impl tokio::io::AsyncWrite for SimAsyncSink {
    fn poll_write(mut self: Pin<&mut Self>, cx: &mut Context<'_>, buf: &[u8]) -> Poll<io::Result<usize>> {
        if self.maybe_pending(cx) {
            return Poll::Pending;
        }
        loop {
            match std::io::Write::write(&mut self.inner, buf) {
                Err(e) if e.kind() == ErrorKind::Interrupted => continue,
                r => return Poll::Ready(r),
            }
        }
    }
    fn poll_flush(mut self: Pin<&mut Self>, cx: &mut Context<'_>) -> Poll<io::Result<()>> {
        if self.maybe_pending(cx) {
            return Poll::Pending;
        }
        Poll::Ready(std::io::Write::flush(&mut self.inner))
    }
    fn poll_shutdown(mut self: Pin<&mut Self>, cx: &mut Context<'_>) -> Poll<io::Result<()>> {
        if self.maybe_pending(cx) {
            return Poll::Pending;
        }
        self.shutdown_called.store(true, Ordering::SeqCst);
        Poll::Ready(std::io::Write::flush(&mut self.inner))
    }
}

/// tokio `AsyncRead + AsyncSeek` source.
pub struct SimAsyncSource {
    pub inner: crate::io::SimSource,
    gate: Gate,
    ctx: Ctx,
    pending: Option<OpFuture>,
    pub pending_rate: u64,
    seek_result: Option<io::Result<u64>>,
}

impl SimAsyncSource {
    pub fn new(ctx: &Ctx, gate: &Gate, src: crate::io::SimSource, pending_rate: u64) -> Self {
        SimAsyncSource { inner: src, gate: gate.clone(), ctx: ctx.clone(), pending: None, pending_rate, seek_result: None }
    }
    fn maybe_pending(&mut self, cx: &mut Context<'_>) -> bool {
        if let Some(op) = &mut self.pending {
            if op.poll_op(cx).is_pending() {
                return true;
            }
            self.pending = None;
            return false;
        }
        if self.pending_rate > 0 && self.ctx.chance(self.pending_rate, 16, "asrc.pending") {
            self.ctx.fault("asrc.pending", 0);
            let mut op = self.gate.op();
            if op.poll_op(cx).is_pending() {
                self.pending = Some(op);
                return true;
            }
        }
        false
    }
}

impl tokio::io::AsyncRead for SimAsyncSource {
    fn poll_read(mut self: Pin<&mut Self>, cx: &mut Context<'_>, buf: &mut tokio::io::ReadBuf<'_>) -> Poll<io::Result<()>> {
        if self.maybe_pending(cx) {
            return Poll::Pending;
        }
        let dst = buf.initialize_unfilled();
        loop {
            match std::io::Read::read(&mut self.inner, dst) {
                Err(e) if e.kind() == ErrorKind::Interrupted => continue,
                Err(e) => return Poll::Ready(Err(e)),
                Ok(n) => {
                    buf.advance(n);
                    return Poll::Ready(Ok(()));
                }
            }
        }
    }
}

impl tokio::io::AsyncSeek for SimAsyncSource {
    fn start_seek(mut self: Pin<&mut Self>, position: SeekFrom) -> io::Result<()> {
        let r = std::io::Seek::seek(&mut self.inner, position);
        self.seek_result = Some(r);
        Ok(())
    }
    fn poll_complete(mut self: Pin<&mut Self>, cx: &mut Context<'_>) -> Poll<io::Result<u64>> {
        if self.seek_result.is_some() && self.maybe_pending(cx) {
            return Poll::Pending;
        }
        match self.seek_result.take() {
            Some(r) => Poll::Ready(r),
            None => Poll::Ready(Ok(self.inner.pos)),
        }
    }
}

/// A `Stream` over prepared items that returns `Pending` on a tape-chosen pattern.
pub struct SimStream<T> {
    items: std::collections::VecDeque<T>,
    gate: Gate,
    ctx: Ctx,
    pending: Option<OpFuture>,
    pub pending_rate: u64,
    pub yielded: usize,
}

impl<T> SimStream<T> {
    pub fn new(ctx: &Ctx, gate: &Gate, items: Vec<T>, pending_rate: u64) -> Self {
        SimStream { items: items.into(), gate: gate.clone(), ctx: ctx.clone(), pending: None, pending_rate, yielded: 0 }
    }
}

impl<T: Unpin> futures::Stream for SimStream<T> {
    type Item = T;
    fn poll_next(mut self: Pin<&mut Self>, cx: &mut Context<'_>) -> Poll<Option<T>> {
        let this = &mut *self;
        if let Some(op) = &mut this.pending {
            if op.poll_op(cx).is_pending() {
                return Poll::Pending;
            }
            this.pending = None;
        } else if this.pending_rate > 0 && this.ctx.chance(this.pending_rate, 16, "stream.pending") {
            this.ctx.fault("stream.pending", this.yielded as u64);
            let mut op = this.gate.op();
            if op.poll_op(cx).is_pending() {
                this.pending = Some(op);
                return Poll::Pending;
            }
        }
        this.yielded += 1;
        Poll::Ready(this.items.pop_front())
    }
}
