//! Worker-process entry point shared by all harness binaries.

use crate::ctx::{Ctx, Focus, RunRecord, Tape, Violation, R};
use crate::rng::Rng;
use serde_json::{json, Value};
use std::cell::RefCell;
use std::collections::{BTreeMap, BTreeSet};
use std::io::Write;
use std::panic::{catch_unwind, AssertUnwindSafe};

pub struct Scenario {
    pub name: &'static str,
    pub runs_quick: u64,
    pub runs_thorough: u64,
    pub f: fn(&Ctx) -> R<()>,
}

/// Progress file of this worker; the shrinker appends heartbeats so that the supervisor's stall watchdog
/// does not mistake a long minimisation for a hang.
pub static HEARTBEAT: std::sync::Mutex<Option<std::fs::File>> = std::sync::Mutex::new(None);

pub fn heartbeat() {
    if let Ok(mut g) = HEARTBEAT.lock() {
        if let Some(f) = g.as_mut() {
            let _ = writeln!(f, "HB");
        }
    }
}

thread_local! {
    static LAST_PANIC: RefCell<Option<(String, String)>> = const { RefCell::new(None) };
    static COMPONENT: RefCell<String> = const { RefCell::new(String::new()) };
    static HARNESS_DEPTH: std::cell::Cell<u32> = const { std::cell::Cell::new(0) };
}

struct HarnessGuard;
impl Drop for HarnessGuard {
    fn drop(&mut self) {
        HARNESS_DEPTH.with(|d| d.set(d.get().saturating_sub(1)));
    }
}

/// Run generator / oracle code: a panic in here is a harness error, never a violation.
pub fn harness<T>(f: impl FnOnce() -> T) -> T {
    HARNESS_DEPTH.with(|d| d.set(d.get() + 1));
    let _g = HarnessGuard;
    f()
}

/// Names the component under test so that a panic can be attributed.
pub fn set_component(c: &str) {
    COMPONENT.with(|x| *x.borrow_mut() = c.to_string());
}

fn install_hook() {
    std::panic::set_hook(Box::new(|info| {
        let msg = if let Some(s) = info.payload().downcast_ref::<&str>() {
            s.to_string()
        } else if let Some(s) = info.payload().downcast_ref::<String>() {
            s.clone()
        } else {
            "<non-string panic>".to_string()
        };
        let mut loc = info.location().map(|l| format!("{}:{}", l.file(), l.line())).unwrap_or_default();
        if HARNESS_DEPTH.with(|d| d.get()) > 0 {
            loc = format!("HARNESS:{loc}");
        }
        if std::env::var_os("VERIF_BACKTRACE").is_some() {
            eprintln!("panic at {loc}: {msg}\n{}", std::backtrace::Backtrace::force_capture());
        }
        LAST_PANIC.with(|p| {
            let mut p = p.borrow_mut();
            // keep the first panic of a run (a second one during unwinding would abort anyway)
            if p.is_none() {
                *p = Some((msg, loc));
            }
        });
    }));
}

/// Known findings (class, key prefix) of this property, read from the file the supervisor names in VERIF_KNOWN.
/// Only enumerated sweeps use it, to carry on past a known site instead of ending the run there; the
/// supervisor still decides what is reported.
static KNOWN: std::sync::OnceLock<Vec<(String, String)>> = std::sync::OnceLock::new();

pub fn load_known(property: &str) {
    let mut v = Vec::new();
    if let Some(path) = std::env::var_os("VERIF_KNOWN") {
        if let Ok(text) = std::fs::read_to_string(path) {
            for line in text.lines() {
                let Some(rest) = line.strip_prefix("known:") else { continue };
                let rest = rest.split(" what=").next().unwrap_or("");
                let mut prop = "";
                let mut key = "";
                let mut class = "";
                for tok in rest.split_whitespace() {
                    if let Some(x) = tok.strip_prefix("property=") {
                        prop = x;
                    } else if let Some(x) = tok.strip_prefix("key=") {
                        key = x;
                    } else if let Some(x) = tok.strip_prefix("class=") {
                        class = x;
                    }
                }
                if prop == property && !key.is_empty() {
                    v.push((class.to_string(), key.to_string()));
                }
            }
        }
    }
    let _ = KNOWN.set(v);
}

pub fn is_known(class: &str, key: &str) -> bool {
    KNOWN.get().map(|v| v.iter().any(|(c, k)| (c.is_empty() || c == class) && key.starts_with(k.as_str()))).unwrap_or(false)
}

/// Run one sub-case of an enumerated sweep. A panic is turned into the violation the runner would report
/// (same class and key); a violation that is a listed known finding is counted and swallowed so that the
/// sweep carries on behind it.
pub fn sweep_case(ctx: &Ctx, f: impl FnOnce() -> R<()>) -> R<()> {
    LAST_PANIC.with(|p| *p.borrow_mut() = None);
    let r = catch_unwind(AssertUnwindSafe(f));
    let v = match r {
        Ok(Ok(())) => return Ok(()),
        Ok(Err(v)) => v,
        Err(_) => {
            let (msg, loc) = LAST_PANIC.with(|p| p.borrow_mut().take()).unwrap_or_default();
            let comp = COMPONENT.with(|c| c.borrow().clone());
            let short = loc.trim_start_matches("/repo/").to_string();
            HARNESS_DEPTH.with(|d| d.set(0));
            if loc.starts_with("HARNESS:") || loc.contains("/verif/sim/") || (!loc.starts_with('/') && !loc.is_empty()) {
                ctx.violation("harness_panic", &format!("harness/panic@{short}"), format!("harness panic at {loc}: {msg}"))
            } else {
                ctx.violation("panic", &format!("{comp}/panic@{short}"), format!("panic at {loc}: {msg}"))
            }
        }
    };
    if is_known(&v.class, &v.key) {
        ctx.count(&format!("known_in_sweep.{}|{}", v.class, v.key), 1);
        return Ok(());
    }
    Err(v)
}

pub struct RunOut {
    pub violation: Option<Violation>,
    pub rec: RunRecord,
    pub peak_alloc: usize,
    pub max_single: usize,
}

pub fn run_one(s: &Scenario, tape: Tape, record: bool, focus: Focus, thorough: bool) -> RunOut {
    let ctx = Ctx::new(tape, record, focus, thorough);
    LAST_PANIC.with(|p| *p.borrow_mut() = None);
    set_component(s.name);
    crate::alloc::reset();
    let base = crate::alloc::live();
    let r = catch_unwind(AssertUnwindSafe(|| (s.f)(&ctx)));
    let peak_alloc = crate::alloc::peak().saturating_sub(base);
    let max_single = crate::alloc::max_single();
    let violation = match r {
        Ok(Ok(())) => None,
        Ok(Err(v)) => Some(v),
        Err(_) => {
            let (msg, loc) = LAST_PANIC.with(|p| p.borrow_mut().take()).unwrap_or_default();
            let comp = COMPONENT.with(|c| c.borrow().clone());
            let short = loc.trim_start_matches("/repo/").to_string();
            HARNESS_DEPTH.with(|d| d.set(0));
            if loc.starts_with("HARNESS:") || loc.contains("/verif/sim/") || (!loc.starts_with('/') && !loc.is_empty()) {
                // generator / oracle code (relative paths are workspace-local crates)
                Some(ctx.violation("harness_panic", &format!("harness/panic@{short}"), format!("harness panic at {loc}: {msg}")))
            } else {
                Some(ctx.violation("panic", &format!("{comp}/panic@{short}"), format!("panic at {loc}: {msg}")))
            }
        }
    };
    RunOut { violation, rec: ctx.finish(), peak_alloc, max_single }
}

fn arg<'a>(args: &'a [String], name: &str) -> Option<&'a str> {
    args.iter().position(|a| a == name).and_then(|i| args.get(i + 1)).map(|s| s.as_str())
}
fn flag(args: &[String], name: &str) -> bool {
    args.iter().any(|a| a == name)
}

fn replay_json(property: &str, s: &Scenario, seed: u64, run: u64, thorough: bool, out: &RunOut, v: &Violation, shrunk_from: usize, execs: u64) -> Value {
    json!({
        "property": property,
        "scenario": s.name,
        "verif_seed": seed,
        "run_index": run,
        "tier": if thorough { "thorough" } else { "quick" },
        "tape": out.rec.tape.iter().map(|t| t.2).collect::<Vec<_>>(),
        "tape_labels": out.rec.tape.iter().map(|t| format!("{}<{}", t.0, t.1)).collect::<Vec<_>>(),
        "focus": v.at,
        "violation": {"class": v.class, "key": v.key, "detail": v.detail},
        "notes": out.rec.notes,
        "event_log": out.rec.events,
        "minimised": {"tape_len_before": shrunk_from, "tape_len_after": out.rec.tape.len(), "re_executions": execs},
    })
}

pub fn main_with(property: &str, scenarios: &[Scenario]) {
    let args: Vec<String> = std::env::args().collect();
    install_hook();
    load_known(property);
    let cmd = args.get(1).map(|s| s.as_str()).unwrap_or("");
    match cmd {
        "list" => {
            let v: Vec<Value> = scenarios.iter().map(|s| json!({"name": s.name, "runs_quick": s.runs_quick, "runs_thorough": s.runs_thorough})).collect();
            println!("{}", json!({"property": property, "scenarios": v}));
        }
        "run" => std::process::exit(cmd_run(property, scenarios, &args)),
        "replay" => std::process::exit(cmd_replay(scenarios, &args)),
        _ => {
            eprintln!("usage: {} list | run --scenario S --seed N --start A --count C --out F [--thorough] | replay FILE", args[0]);
            std::process::exit(2);
        }
    }
}

fn cmd_run(property: &str, scenarios: &[Scenario], args: &[String]) -> i32 {
    let name = arg(args, "--scenario").unwrap_or("");
    let Some(s) = scenarios.iter().find(|s| s.name == name) else {
        eprintln!("unknown scenario {name}");
        return 2;
    };
    let seed: u64 = arg(args, "--seed").and_then(|v| v.parse().ok()).unwrap_or(0);
    let start: u64 = arg(args, "--start").and_then(|v| v.parse().ok()).unwrap_or(0);
    let count: u64 = arg(args, "--count").and_then(|v| v.parse().ok()).unwrap_or(1);
    let stride: u64 = arg(args, "--stride").and_then(|v| v.parse().ok()).unwrap_or(1);
    let thorough = flag(args, "--thorough");
    let out_path = arg(args, "--out").unwrap_or("/dev/stdout").to_string();
    let replay_dir = arg(args, "--replay-dir").unwrap_or("/verif/replays").to_string();
    let progress = arg(args, "--progress").map(|p| std::fs::OpenOptions::new().create(true).append(true).open(p).expect("progress file"));
    let recheck_mod: u64 = arg(args, "--recheck-mod").and_then(|v| v.parse().ok()).unwrap_or(50);
    let only_recheck = flag(args, "--only-recheck");
    let no_shrink = flag(args, "--no-shrink");
    let max_viol: usize = arg(args, "--max-violations").and_then(|v| v.parse().ok()).unwrap_or(8);

    let mut progress = progress;
    if let Some(p) = progress.as_ref() {
        if let Ok(c) = p.try_clone() {
            *HEARTBEAT.lock().unwrap() = Some(c);
        }
    }
    let mut counters: BTreeMap<String, u64> = BTreeMap::new();
    let mut shapes: BTreeSet<u64> = BTreeSet::new();
    let mut violations: Vec<Value> = Vec::new();
    let mut run_hashes: Vec<(u64, String)> = Vec::new();
    let mut samples: Vec<Value> = Vec::new();
    let mut evaluations = 0u64;
    let mut nontrivial_runs = 0u64;
    let mut steps = 0u64;
    let mut peak_alloc = 0usize;
    let mut max_single = 0usize;
    let mut peak_run = 0u64;
    let mut tape_draws = 0u64;
    let mut shapes_capped = false;

    let mut i = 0u64;
    while i < count {
        let run = start + i * stride;
        i += 1;
        let rechecked = run % recheck_mod == 7 % recheck_mod;
        if only_recheck && !rechecked {
            continue;
        }
        if let Some(p) = progress.as_mut() {
            let _ = writeln!(p, "BEGIN {run}");
        }
        let rs = Rng::run_seed(seed, s.name, run);
        let want_sample = samples.len() < 3 && !only_recheck;
        let out = run_one(s, Tape::explore(rs), want_sample, Focus::none(), thorough);
        evaluations += 1;
        steps += out.rec.steps;
        tape_draws += out.rec.tape.len() as u64;
        if out.peak_alloc > peak_alloc {
            peak_alloc = out.peak_alloc;
            peak_run = run;
        }
        max_single = max_single.max(out.max_single);
        for (k, v) in &out.rec.counters {
            *counters.entry(k.clone()).or_insert(0) += v;
        }
        if out.rec.nontrivial {
            nontrivial_runs += 1;
            // bounded: beyond this many distinct shapes per worker only the count of runs is kept
            if shapes.len() < 250_000 {
                shapes.insert(out.rec.shape_hash);
            } else {
                shapes_capped = true;
            }
        }
        if rechecked {
            let vh = out.violation.as_ref().map(|v| format!("{}|{}", v.class, v.key)).unwrap_or_default();
            run_hashes.push((run, format!("{:016x}:{}", out.rec.log_hash, vh)));
        }
        if want_sample && out.rec.nontrivial {
            samples.push(json!({
                "run": run,
                "tape_len": out.rec.tape.len(),
                "tape_head": out.rec.tape.iter().take(24).map(|t| format!("{}={}", t.0, t.2)).collect::<Vec<_>>(),
                "notes": out.rec.notes,
                "events_head": out.rec.events.iter().take(40).collect::<Vec<_>>(),
                "outcome": out.violation.as_ref().map(|v| v.class.clone()).unwrap_or_else(|| "held".into()),
            }));
        }
        if let Some(v) = &out.violation {
            if !only_recheck && violations.len() < max_viol {
                // minimise, then write replay file
                let before = out.rec.tape.len();
                let values: Vec<u64> = out.rec.tape.iter().map(|t| t.2).collect();
                let (min_values, min_focus, execs) = if no_shrink {
                    (values, v.at.clone(), 0)
                } else {
                    crate::shrink::shrink(s, values, v, thorough)
                };
                let fin = run_one(s, Tape::replay(min_values.clone()), true, Focus::exact(min_focus.clone()), thorough);
                let (fin, fv) = match &fin.violation {
                    Some(fv) if fv.class == v.class && fv.component() == v.component() => {
                        let fv = fv.clone();
                        (fin, fv)
                    }
                    _ => {
                        // fall back to the unshrunk tape
                        let values: Vec<u64> = out.rec.tape.iter().map(|t| t.2).collect();
                        let f2 = run_one(s, Tape::replay(values), true, Focus::exact(v.at.clone()), thorough);
                        let fv = f2.violation.clone().unwrap_or_else(|| v.clone());
                        (f2, fv)
                    }
                };
                let file = format!("{replay_dir}/{property}-{}-{seed}-{run}.json", s.name);
                let _ = std::fs::create_dir_all(&replay_dir);
                let j = replay_json(property, s, seed, run, thorough, &fin, &fv, before, execs);
                let _ = std::fs::write(&file, serde_json::to_string_pretty(&j).unwrap());
                violations.push(json!({"run": run, "class": fv.class, "key": fv.key, "detail": fv.detail, "replay": file, "reproduced": fin.violation.is_some()}));
            } else if !only_recheck {
                violations.push(json!({"run": run, "class": v.class, "key": v.key, "detail": v.detail, "replay": Value::Null, "reproduced": Value::Null}));
            }
        }
        if let Some(p) = progress.as_mut() {
            let _ = writeln!(p, "END {run}");
        }
    }
    let j = json!({
        "property": property,
        "scenario": s.name,
        "seed": seed,
        "start": start,
        "count": count,
        "stride": stride,
        "evaluations": evaluations,
        "nontrivial_runs": nontrivial_runs,
        "shape_hashes": shapes.iter().map(|h| format!("{h:016x}")).collect::<Vec<_>>(),
        "shapes_capped": shapes_capped,
        "counters": counters,
        "violations": violations,
        "run_hashes": run_hashes,
        "samples": samples,
        "steps": steps,
        "tape_draws": tape_draws,
        "peak_alloc": peak_alloc,
        "peak_alloc_run": peak_run,
        "max_single_alloc": max_single,
    });
    if std::fs::write(&out_path, serde_json::to_string(&j).unwrap()).is_err() {
        eprintln!("cannot write {out_path}");
        return 2;
    }
    0
}

fn cmd_replay(scenarios: &[Scenario], args: &[String]) -> i32 {
    let Some(path) = args.get(2) else {
        eprintln!("replay needs a file");
        return 2;
    };
    let Ok(text) = std::fs::read_to_string(path) else {
        eprintln!("cannot read {path}");
        return 2;
    };
    let Ok(j) = serde_json::from_str::<Value>(&text) else {
        eprintln!("bad json in {path}");
        return 2;
    };
    let name = j["scenario"].as_str().unwrap_or("");
    let Some(s) = scenarios.iter().find(|s| s.name == name) else {
        eprintln!("unknown scenario {name}");
        return 2;
    };
    let thorough = j["tier"].as_str() == Some("thorough");
    let tape = match j["tape"].as_array() {
        Some(a) => Tape::replay(a.iter().map(|v| v.as_u64().unwrap_or(0)).collect()),
        None => {
            let seed = j["verif_seed"].as_u64().unwrap_or(0);
            let run = j["run_index"].as_u64().unwrap_or(0);
            Tape::explore(Rng::run_seed(seed, s.name, run))
        }
    };
    let focus: Option<BTreeMap<String, u64>> = j["focus"].as_object().map(|o| o.iter().map(|(k, v)| (k.clone(), v.as_u64().unwrap_or(0))).collect());
    let out = run_one(s, tape, true, focus.map(Focus::exact).unwrap_or_default(), thorough);
    for e in out.rec.events.iter().take(200) {
        println!("  ev {e}");
    }
    match out.violation {
        Some(v) => {
            println!("REPRODUCED property={} scenario={} class={} key={} at={:?}", j["property"].as_str().unwrap_or(""), name, v.class, v.key, v.at);
            println!("  detail: {}", v.detail);
            let want_c = j["violation"]["class"].as_str().unwrap_or("");
            if want_c != v.class {
                println!("  note: recorded class was {want_c}");
            }
            println!("VIOLATION property={} replay={}", j["property"].as_str().unwrap_or(""), path);
            1
        }
        None => {
            println!("NOT-REPRODUCED scenario={name}: the property held on this replay");
            0
        }
    }
}
