//! In-tree PRNG (xoshiro256**) so that streams never depend on a crate version.

pub fn splitmix64(x: u64) -> u64 {
    let mut z = x.wrapping_add(0x9E37_79B9_7F4A_7C15);
    z = (z ^ (z >> 30)).wrapping_mul(0xBF58_476D_1CE4_E5B9);
    z = (z ^ (z >> 27)).wrapping_mul(0x94D0_49BB_1331_11EB);
    z ^ (z >> 31)
}

pub fn fnv1a(h: u64, bytes: &[u8]) -> u64 {
    let mut h = if h == 0 { 0xcbf2_9ce4_8422_2325 } else { h };
    for b in bytes {
        h ^= *b as u64;
        h = h.wrapping_mul(0x0000_0100_0000_01B3);
    }
    h
}

pub fn mix(h: u64, v: u64) -> u64 {
    splitmix64(h ^ v.wrapping_mul(0x9E37_79B9_7F4A_7C15))
}

#[derive(Clone, Debug)]
pub struct Rng {
    s: [u64; 4],
}

impl Rng {
    pub fn new(seed: u64) -> Self {
        let mut x = seed;
        let mut s = [0u64; 4];
        for v in s.iter_mut() {
            x = splitmix64(x);
            *v = x;
        }
        if s == [0; 4] {
            s[0] = 1;
        }
        Rng { s }
    }

    /// Seed for run `i` of scenario `scenario` under `verif_seed`.
    pub fn run_seed(verif_seed: u64, scenario: &str, run: u64) -> u64 {
        let h = fnv1a(0, scenario.as_bytes());
        splitmix64(splitmix64(verif_seed ^ h).wrapping_add(run.wrapping_mul(0xD134_2543_DE82_EF95)))
    }

    pub fn next_u64(&mut self) -> u64 {
        let result = self.s[1].wrapping_mul(5).rotate_left(7).wrapping_mul(9);
        let t = self.s[1] << 17;
        self.s[2] ^= self.s[0];
        self.s[3] ^= self.s[1];
        self.s[1] ^= self.s[2];
        self.s[0] ^= self.s[3];
        self.s[2] ^= t;
        self.s[3] = self.s[3].rotate_left(45);
        result
    }

    /// Uniform in 0..bound (bound >= 1).
    pub fn below(&mut self, bound: u64) -> u64 {
        if bound <= 1 {
            return 0;
        }
        // multiply-shift; bias is irrelevant here
        ((self.next_u64() as u128 * bound as u128) >> 64) as u64
    }
}
