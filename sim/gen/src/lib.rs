//! Workload generator and logical value model.
//!
//! Data is generated as a logical value tree (`V`) first and only then realised physically (sliced,
//! garbage under nulls, dictionaries with unused entries, ...). Oracles read results back into `V`
//! through arrow's safe accessors and compare trees; arrow's own `==` is never the oracle.

mod build;
mod extract;
mod types;

pub use build::{build, build_canonical, default_value};
pub use extract::{exceeds, extract, rows_of, schema_sig, set_physical_nullability, type_sig, validate_batch};
pub use types::{gen_schema, gen_type, gen_value, Leaf, Profile, StrStyle};

use arrow_array::{ArrayRef, RecordBatch, RecordBatchOptions};
use arrow_schema::SchemaRef;
use simcore::Ctx;

/// Logical value. Floats are compared by bit pattern (NaN payloads and -0.0 are distinct values).
#[derive(Clone, Debug, PartialEq, Eq, Hash)]
pub enum V {
    Null,
    Bool(bool),
    /// all integer-like types up to 128 bits (ints, dates, times, timestamps, durations, decimals)
    Int(i128),
    F16(u16),
    F32(u32),
    F64(u64),
    Bin(Vec<u8>),
    Str(String),
    /// (months, days, nanos|millis)
    Tup(i64, i64, i64),
    List(Vec<V>),
    Struct(Vec<V>),
    Map(Vec<(V, V)>),
    Union(i8, Box<V>),
}

/// Column-major logical batch.
#[derive(Clone, Debug)]
pub struct LBatch {
    pub cols: Vec<Vec<V>>,
    pub rows: usize,
}

impl LBatch {
    pub fn row(&self, i: usize) -> Vec<V> {
        self.cols.iter().map(|c| c[i].clone()).collect()
    }
    pub fn to_rows(&self) -> Vec<Vec<V>> {
        (0..self.rows).map(|i| self.row(i)).collect()
    }
}

pub fn gen_lbatch(ctx: &Ctx, schema: &SchemaRef, rows: usize, p: &Profile) -> LBatch {
    let cols = schema
        .fields()
        .iter()
        .map(|f| (0..rows).map(|_| gen_value(ctx, f.data_type(), f.is_nullable(), p, 0)).collect())
        .collect();
    LBatch { cols, rows }
}

pub fn realise(ctx: &Ctx, schema: &SchemaRef, lb: &LBatch, vary: bool) -> RecordBatch {
    simcore::runner::harness(|| realise_inner(ctx, schema, lb, vary))
}

fn realise_inner(ctx: &Ctx, schema: &SchemaRef, lb: &LBatch, vary: bool) -> RecordBatch {
    let arrays: Vec<ArrayRef> = schema.fields().iter().zip(&lb.cols).map(|(f, c)| build(ctx, f.data_type(), c, vary)).collect();
    RecordBatch::try_new_with_options(schema.clone(), arrays, &RecordBatchOptions::new().with_row_count(Some(lb.rows))).expect("generator produced an invalid batch")
}

/// Generate a logical batch and its physical realisation.
pub fn gen_batch(ctx: &Ctx, schema: &SchemaRef, rows: usize, p: &Profile) -> (LBatch, RecordBatch) {
    let lb = gen_lbatch(ctx, schema, rows, p);
    let rb = realise(ctx, schema, &lb, p.vary_physical);
    (lb, rb)
}

/// Short human-readable rendering for violation details.
pub fn show(v: &V) -> String {
    let s = format!("{v:?}");
    if s.len() > 160 {
        format!("{}…", &s[..s.char_indices().take_while(|(i, _)| *i < 160).last().map(|(i, c)| i + c.len_utf8()).unwrap_or(0)])
    } else {
        s
    }
}

/// First difference between two row sequences, rendered.
pub fn diff_rows(a: &[Vec<V>], b: &[Vec<V>]) -> Option<String> {
    for (i, (x, y)) in a.iter().zip(b.iter()).enumerate() {
        if x != y {
            for (c, (p, q)) in x.iter().zip(y.iter()).enumerate() {
                if p != q {
                    return Some(format!("row {i} col {c}: expected {} got {}", show(p), show(q)));
                }
            }
            return Some(format!("row {i}: width {} vs {}", x.len(), y.len()));
        }
    }
    if a.len() != b.len() {
        return Some(format!("row count: expected {} got {}", a.len(), b.len()));
    }
    None
}

/// Everything a harness needs to describe a workload profile.
pub mod types_api {
    pub use crate::types::*;
}
