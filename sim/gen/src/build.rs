use crate::V;
use arrow_array::builder::{BinaryViewBuilder, StringViewBuilder};
use arrow_array::types::*;
use arrow_array::*;
use arrow_buffer::{i256, BooleanBuffer, Buffer, IntervalDayTime, IntervalMonthDayNano, NullBuffer, OffsetBuffer, ScalarBuffer};
use arrow_schema::{DataType, IntervalUnit, TimeUnit, UnionMode};
use simcore::Ctx;
use std::sync::Arc;

/// A non-null filler value of the type (what sits under a null parent).
pub fn default_value(dt: &DataType) -> V {
    match dt {
        DataType::Null => V::Null,
        DataType::Boolean => V::Bool(false),
        DataType::Float16 => V::F16(0),
        DataType::Float32 => V::F32(0),
        DataType::Float64 => V::F64(0),
        DataType::Decimal256(_, _) => V::Bin(vec![0; 32]),
        DataType::Interval(IntervalUnit::DayTime) | DataType::Interval(IntervalUnit::MonthDayNano) => V::Tup(0, 0, 0),
        DataType::Utf8 | DataType::LargeUtf8 | DataType::Utf8View => V::Str(String::new()),
        DataType::Binary | DataType::LargeBinary | DataType::BinaryView => V::Bin(vec![]),
        DataType::FixedSizeBinary(n) => V::Bin(vec![0; *n as usize]),
        DataType::Dictionary(_, v) => default_value(v),
        DataType::RunEndEncoded(_, v) => default_value(v.data_type()),
        DataType::Struct(fs) => V::Struct(fs.iter().map(|f| default_value(f.data_type())).collect()),
        DataType::List(_) | DataType::LargeList(_) | DataType::ListView(_) | DataType::LargeListView(_) => V::List(vec![]),
        DataType::FixedSizeList(f, n) => V::List((0..*n).map(|_| default_value(f.data_type())).collect()),
        DataType::Map(_, _) => V::Map(vec![]),
        DataType::Union(ufs, _) => {
            let (id, f) = ufs.iter().next().expect("union with a child");
            V::Union(id, Box::new(default_value(f.data_type())))
        }
        _ => V::Int(0),
    }
}

fn nulls_of(ctx: &Ctx, vals: &[V], vary: bool) -> Option<NullBuffer> {
    if vals.iter().any(|v| matches!(v, V::Null)) {
        Some(NullBuffer::from(vals.iter().map(|v| !matches!(v, V::Null)).collect::<Vec<bool>>()))
    } else if vary && !vals.is_empty() && ctx.chance(1, 6, "phys.allvalid_nulls") {
        Some(NullBuffer::new(BooleanBuffer::new_set(vals.len())))
    } else {
        None
    }
}

fn prim<T: ArrowPrimitiveType>(ctx: &Ctx, dt: &DataType, vals: &[V], vary: bool, conv: impl Fn(&V) -> T::Native, garbage: T::Native) -> ArrayRef {
    let junk = vary && ctx.chance(1, 3, "phys.garbage");
    let values: Vec<T::Native> = vals.iter().map(|v| if matches!(v, V::Null) { if junk { garbage } else { T::Native::default() } } else { conv(v) }).collect();
    Arc::new(PrimitiveArray::<T>::new(ScalarBuffer::from(values), nulls_of(ctx, vals, vary)).with_data_type(dt.clone()))
}

fn int(v: &V) -> i128 {
    match v {
        V::Int(x) => *x,
        other => panic!("generator: expected Int, got {other:?}"),
    }
}

fn bytes_of(v: &V) -> &[u8] {
    match v {
        V::Bin(b) => b,
        V::Str(s) => s.as_bytes(),
        V::Null => &[],
        other => panic!("generator: expected bytes, got {other:?}"),
    }
}

fn offsets_i<O: OffsetSizeTrait>(lens: impl Iterator<Item = usize>, start: usize) -> OffsetBuffer<O> {
    let mut v = vec![O::usize_as(start)];
    let mut acc = start;
    for l in lens {
        acc += l;
        v.push(O::usize_as(acc));
    }
    OffsetBuffer::new(ScalarBuffer::from(v))
}

fn byte_array<T: ByteArrayType>(ctx: &Ctx, vals: &[V], vary: bool) -> ArrayRef {
    // optionally leave unreferenced bytes in front (offsets not starting at 0) and under nulls
    let lead = if vary && ctx.chance(1, 4, "phys.lead_bytes") { 3 } else { 0 };
    let junk = vary && ctx.chance(1, 4, "phys.garbage");
    let mut data = vec![b'#'; lead];
    let mut lens = Vec::with_capacity(vals.len());
    for v in vals {
        if matches!(v, V::Null) {
            if junk {
                data.extend_from_slice(b"zz");
                lens.push(2);
            } else {
                lens.push(0);
            }
        } else {
            let b = bytes_of(v);
            data.extend_from_slice(b);
            lens.push(b.len());
        }
    }
    let offsets = offsets_i::<T::Offset>(lens.into_iter(), lead);
    Arc::new(GenericByteArray::<T>::new(offsets, Buffer::from(data), nulls_of(ctx, vals, vary)))
}

fn build_list<O: OffsetSizeTrait>(ctx: &Ctx, f: &arrow_schema::FieldRef, vals: &[V], vary: bool) -> ArrayRef {
    let lead = if vary && ctx.chance(1, 4, "phys.lead_items") { 2 } else { 0 };
    let junk = vary && ctx.chance(1, 4, "phys.garbage");
    let filler = if f.is_nullable() && !junk { V::Null } else { default_value(f.data_type()) };
    let mut child: Vec<V> = vec![filler.clone(); lead];
    let mut lens = Vec::with_capacity(vals.len());
    for v in vals {
        match v {
            V::List(items) => {
                child.extend(items.iter().cloned());
                lens.push(items.len());
            }
            V::Null => {
                if junk {
                    child.push(filler.clone());
                    lens.push(1);
                } else {
                    lens.push(0);
                }
            }
            other => panic!("generator: expected List, got {other:?}"),
        }
    }
    let values = build(ctx, f.data_type(), &child, vary);
    Arc::new(GenericListArray::<O>::new(f.clone(), offsets_i::<O>(lens.into_iter(), lead), values, nulls_of(ctx, vals, vary)))
}

fn build_list_view<O: OffsetSizeTrait>(ctx: &Ctx, f: &arrow_schema::FieldRef, vals: &[V], vary: bool) -> ArrayRef {
    // list-views may be stored out of order and may share child ranges
    let reverse = vary && ctx.chance(1, 3, "phys.lv_reverse");
    let share = vary && ctx.chance(1, 3, "phys.lv_share");
    let mut child: Vec<V> = Vec::new();
    let mut offs = vec![0usize; vals.len()];
    let mut sizes = vec![0usize; vals.len()];
    let order: Vec<usize> = if reverse { (0..vals.len()).rev().collect() } else { (0..vals.len()).collect() };
    let mut seen: Vec<(usize, &Vec<V>)> = Vec::new();
    for i in order {
        if let V::List(items) = &vals[i] {
            if share {
                if let Some((o, _)) = seen.iter().find(|(_, it)| *it == items) {
                    offs[i] = *o;
                    sizes[i] = items.len();
                    continue;
                }
            }
            offs[i] = child.len();
            sizes[i] = items.len();
            seen.push((child.len(), items));
            child.extend(items.iter().cloned());
        }
    }
    let values = build(ctx, f.data_type(), &child, vary);
    let o: Vec<O> = offs.into_iter().map(O::usize_as).collect();
    let s: Vec<O> = sizes.into_iter().map(O::usize_as).collect();
    Arc::new(GenericListViewArray::<O>::new(f.clone(), ScalarBuffer::from(o), ScalarBuffer::from(s), values, nulls_of(ctx, vals, vary)))
}

fn build_dict<K: ArrowDictionaryKeyType>(ctx: &Ctx, vt: &DataType, vals: &[V], vary: bool) -> ArrayRef
where
    K::Native: TryFrom<usize>,
{
    let max_key: usize = match K::DATA_TYPE {
        DataType::Int8 => 127,
        DataType::UInt8 => 255,
        _ => 30_000,
    };
    let mut dict: Vec<V> = Vec::new();
    if vary && ctx.chance(1, 3, "phys.dict_unused") {
        dict.push(default_value(vt)); // unused (or shared) entry in front
    }
    let dup = vary && ctx.chance(1, 4, "phys.dict_dup");
    let mut keys: Vec<Option<usize>> = Vec::with_capacity(vals.len());
    for (i, v) in vals.iter().enumerate() {
        if matches!(v, V::Null) {
            keys.push(None);
            continue;
        }
        let found = if dup && i % 3 == 2 { None } else { dict.iter().position(|d| d == v) };
        match found {
            Some(k) => keys.push(Some(k)),
            None if dict.len() <= max_key => {
                dict.push(v.clone());
                keys.push(Some(dict.len() - 1));
            }
            None => keys.push(Some(dict.iter().position(|d| d == v).unwrap_or(0))),
        }
    }
    // a null *inside* the dictionary referenced by a valid key is also a legal way to denote null
    let null_in_dict = vary && !matches!(vt, DataType::Null) && keys.iter().any(|k| k.is_none()) && ctx.chance(1, 6, "phys.dict_null_value") && dict.len() < max_key;
    if null_in_dict {
        dict.push(V::Null);
        let nk = dict.len() - 1;
        for k in keys.iter_mut() {
            if k.is_none() {
                *k = Some(nk);
            }
        }
    }
    let values = build(ctx, vt, &dict, vary);
    let key_vals: Vec<V> = keys.iter().map(|k| k.map(|k| V::Int(k as i128)).unwrap_or(V::Null)).collect();
    let karr = prim::<K>(ctx, &K::DATA_TYPE, &key_vals, false, |v| K::Native::try_from(int(v) as usize).ok().expect("dictionary key fits"), K::Native::default());
    let karr = karr.as_any().downcast_ref::<PrimitiveArray<K>>().unwrap().clone();
    Arc::new(DictionaryArray::<K>::try_new(karr, values).expect("generator: dictionary"))
}

fn build_ree<R: RunEndIndexType>(ctx: &Ctx, vt: &DataType, vals: &[V], vary: bool) -> ArrayRef
where
    R::Native: TryFrom<usize>,
{
    let split = vary && ctx.chance(1, 3, "phys.ree_split");
    let mut run_vals: Vec<V> = Vec::new();
    let mut ends: Vec<usize> = Vec::new();
    for (i, v) in vals.iter().enumerate() {
        let same = run_vals.last().map(|l| l == v).unwrap_or(false);
        if same && !(split && i % 4 == 3) {
            *ends.last_mut().unwrap() = i + 1;
        } else {
            run_vals.push(v.clone());
            ends.push(i + 1);
        }
    }
    let values = build(ctx, vt, &run_vals, false);
    let re: Vec<R::Native> = ends.into_iter().map(|e| R::Native::try_from(e).ok().expect("run end fits")).collect();
    let run_ends = PrimitiveArray::<R>::new(ScalarBuffer::from(re), None);
    Arc::new(RunArray::<R>::try_new(&run_ends, values.as_ref()).expect("generator: run array"))
}

/// Build with physical variation decided by the tape (when `vary`), including slicing out of a larger array.
pub fn build(ctx: &Ctx, dt: &DataType, vals: &[V], vary: bool) -> ArrayRef {
    if vary && !vals.is_empty() && !matches!(dt, DataType::RunEndEncoded(_, _)) && ctx.chance(1, 3, "phys.slice") {
        let pre = 1 + ctx.below(9, "phys.pre");
        let post = ctx.below(3, "phys.post");
        let n = vals.len();
        let mut big: Vec<V> = Vec::with_capacity(pre + n + post);
        for i in 0..pre {
            big.push(vals[(i * 5 + 1) % n].clone());
        }
        big.extend(vals.iter().cloned());
        for i in 0..post {
            big.push(vals[(i * 3) % n].clone());
        }
        return build_inner(ctx, dt, &big, vary).slice(pre, n);
    }
    build_inner(ctx, dt, vals, vary)
}

pub fn build_canonical(ctx: &Ctx, dt: &DataType, vals: &[V]) -> ArrayRef {
    build_inner(ctx, dt, vals, false)
}

fn build_inner(ctx: &Ctx, dt: &DataType, vals: &[V], vary: bool) -> ArrayRef {
    macro_rules! p {
        ($t:ty, $n:ty) => {
            prim::<$t>(ctx, dt, vals, vary, |v| int(v) as $n, 0x5A as $n)
        };
    }
    match dt {
        DataType::Null => Arc::new(NullArray::new(vals.len())),
        DataType::Boolean => {
            let junk = vary && ctx.chance(1, 3, "phys.garbage");
            let bits: Vec<bool> = vals.iter().map(|v| matches!(v, V::Bool(true)) || (junk && matches!(v, V::Null))).collect();
            Arc::new(BooleanArray::new(BooleanBuffer::from(bits), nulls_of(ctx, vals, vary)))
        }
        DataType::Int8 => p!(Int8Type, i8),
        DataType::Int16 => p!(Int16Type, i16),
        DataType::Int32 => p!(Int32Type, i32),
        DataType::Int64 => p!(Int64Type, i64),
        DataType::UInt8 => p!(UInt8Type, u8),
        DataType::UInt16 => p!(UInt16Type, u16),
        DataType::UInt32 => p!(UInt32Type, u32),
        DataType::UInt64 => p!(UInt64Type, u64),
        DataType::Float16 => prim::<Float16Type>(ctx, dt, vals, vary, |v| if let V::F16(b) = v { half::f16::from_bits(*b) } else { panic!("f16") }, half::f16::from_bits(0x7e01)),
        DataType::Float32 => prim::<Float32Type>(ctx, dt, vals, vary, |v| if let V::F32(b) = v { f32::from_bits(*b) } else { panic!("f32") }, f32::NAN),
        DataType::Float64 => prim::<Float64Type>(ctx, dt, vals, vary, |v| if let V::F64(b) = v { f64::from_bits(*b) } else { panic!("f64") }, f64::NAN),
        DataType::Decimal32(_, _) => p!(Decimal32Type, i32),
        DataType::Decimal64(_, _) => p!(Decimal64Type, i64),
        DataType::Decimal128(_, _) => p!(Decimal128Type, i128),
        DataType::Decimal256(_, _) => prim::<Decimal256Type>(
            ctx,
            dt,
            vals,
            vary,
            |v| {
                let b = bytes_of(v);
                let mut a = [0u8; 32];
                a.copy_from_slice(b);
                i256::from_le_bytes(a)
            },
            i256::from_i128(7),
        ),
        DataType::Date32 => p!(Date32Type, i32),
        DataType::Date64 => p!(Date64Type, i64),
        DataType::Time32(TimeUnit::Second) => p!(Time32SecondType, i32),
        DataType::Time32(_) => p!(Time32MillisecondType, i32),
        DataType::Time64(TimeUnit::Microsecond) => p!(Time64MicrosecondType, i64),
        DataType::Time64(_) => p!(Time64NanosecondType, i64),
        DataType::Timestamp(TimeUnit::Second, _) => p!(TimestampSecondType, i64),
        DataType::Timestamp(TimeUnit::Millisecond, _) => p!(TimestampMillisecondType, i64),
        DataType::Timestamp(TimeUnit::Microsecond, _) => p!(TimestampMicrosecondType, i64),
        DataType::Timestamp(TimeUnit::Nanosecond, _) => p!(TimestampNanosecondType, i64),
        DataType::Duration(TimeUnit::Second) => p!(DurationSecondType, i64),
        DataType::Duration(TimeUnit::Millisecond) => p!(DurationMillisecondType, i64),
        DataType::Duration(TimeUnit::Microsecond) => p!(DurationMicrosecondType, i64),
        DataType::Duration(TimeUnit::Nanosecond) => p!(DurationNanosecondType, i64),
        DataType::Interval(IntervalUnit::YearMonth) => p!(IntervalYearMonthType, i32),
        DataType::Interval(IntervalUnit::DayTime) => prim::<IntervalDayTimeType>(
            ctx,
            dt,
            vals,
            vary,
            |v| if let V::Tup(_, d, ms) = v { IntervalDayTime::new(*d as i32, *ms as i32) } else { panic!("interval") },
            IntervalDayTime::new(9, 9),
        ),
        DataType::Interval(IntervalUnit::MonthDayNano) => prim::<IntervalMonthDayNanoType>(
            ctx,
            dt,
            vals,
            vary,
            |v| if let V::Tup(m, d, n) = v { IntervalMonthDayNano::new(*m as i32, *d as i32, *n) } else { panic!("interval") },
            IntervalMonthDayNano::new(9, 9, 9),
        ),
        DataType::Utf8 => byte_array::<Utf8Type>(ctx, vals, vary),
        DataType::LargeUtf8 => byte_array::<LargeUtf8Type>(ctx, vals, vary),
        DataType::Binary => byte_array::<BinaryType>(ctx, vals, vary),
        DataType::LargeBinary => byte_array::<LargeBinaryType>(ctx, vals, vary),
        DataType::Utf8View => {
            let mut b = StringViewBuilder::new();
            if vary && ctx.chance(1, 2, "phys.view_blocks") {
                b = b.with_fixed_block_size(24); // spread long strings over several buffers
            }
            for v in vals {
                match v {
                    V::Str(s) => b.append_value(s),
                    _ => b.append_null(),
                }
            }
            Arc::new(b.finish())
        }
        DataType::BinaryView => {
            let mut b = BinaryViewBuilder::new();
            if vary && ctx.chance(1, 2, "phys.view_blocks") {
                b = b.with_fixed_block_size(24);
            }
            for v in vals {
                match v {
                    V::Bin(s) => b.append_value(s),
                    _ => b.append_null(),
                }
            }
            Arc::new(b.finish())
        }
        DataType::FixedSizeBinary(n) => {
            let mut data = Vec::with_capacity(vals.len() * *n as usize);
            for v in vals {
                match v {
                    V::Bin(b) => data.extend_from_slice(b),
                    _ => data.extend(std::iter::repeat(0x5a).take(*n as usize)),
                }
            }
            Arc::new(FixedSizeBinaryArray::try_new_with_len(*n, Buffer::from(data), nulls_of(ctx, vals, vary), vals.len()).expect("generator: fsb"))
        }
        DataType::Dictionary(k, vt) => match k.as_ref() {
            DataType::Int8 => build_dict::<Int8Type>(ctx, vt, vals, vary),
            DataType::Int16 => build_dict::<Int16Type>(ctx, vt, vals, vary),
            DataType::Int32 => build_dict::<Int32Type>(ctx, vt, vals, vary),
            DataType::Int64 => build_dict::<Int64Type>(ctx, vt, vals, vary),
            DataType::UInt8 => build_dict::<UInt8Type>(ctx, vt, vals, vary),
            DataType::UInt16 => build_dict::<UInt16Type>(ctx, vt, vals, vary),
            DataType::UInt32 => build_dict::<UInt32Type>(ctx, vt, vals, vary),
            _ => build_dict::<UInt64Type>(ctx, vt, vals, vary),
        },
        DataType::RunEndEncoded(re, vf) => match re.data_type() {
            DataType::Int16 => build_ree::<Int16Type>(ctx, vf.data_type(), vals, vary),
            DataType::Int32 => build_ree::<Int32Type>(ctx, vf.data_type(), vals, vary),
            _ => build_ree::<Int64Type>(ctx, vf.data_type(), vals, vary),
        },
        DataType::Struct(fs) => {
            let junk = vary && ctx.chance(1, 3, "phys.garbage");
            let children: Vec<ArrayRef> = fs
                .iter()
                .enumerate()
                .map(|(ci, f)| {
                    let col: Vec<V> = vals
                        .iter()
                        .map(|v| match v {
                            V::Struct(items) => items[ci].clone(),
                            _ => {
                                if f.is_nullable() && !junk && !matches!(f.data_type(), DataType::Union(_, _)) {
                                    V::Null
                                } else {
                                    default_value(f.data_type())
                                }
                            }
                        })
                        .collect();
                    build(ctx, f.data_type(), &col, vary)
                })
                .collect();
            Arc::new(StructArray::try_new_with_length(fs.clone(), children, nulls_of(ctx, vals, vary), vals.len()).expect("generator: struct"))
        }
        DataType::List(f) => build_list::<i32>(ctx, f, vals, vary),
        DataType::LargeList(f) => build_list::<i64>(ctx, f, vals, vary),
        DataType::ListView(f) => build_list_view::<i32>(ctx, f, vals, vary),
        DataType::LargeListView(f) => build_list_view::<i64>(ctx, f, vals, vary),
        DataType::FixedSizeList(f, n) => {
            let filler = if f.is_nullable() && !matches!(f.data_type(), DataType::Union(_, _)) { V::Null } else { default_value(f.data_type()) };
            let mut child: Vec<V> = Vec::with_capacity(vals.len() * *n as usize);
            for v in vals {
                match v {
                    V::List(items) => child.extend(items.iter().cloned()),
                    _ => child.extend(std::iter::repeat(filler.clone()).take(*n as usize)),
                }
            }
            let values = build(ctx, f.data_type(), &child, vary);
            Arc::new(FixedSizeListArray::try_new_with_length(f.clone(), *n, values, nulls_of(ctx, vals, vary), vals.len()).expect("generator: fsl"))
        }
        DataType::Map(entries, ordered) => {
            let DataType::Struct(kv) = entries.data_type() else { unreachable!() };
            let mut keys: Vec<V> = Vec::new();
            let mut items: Vec<V> = Vec::new();
            let mut lens = Vec::with_capacity(vals.len());
            for v in vals {
                match v {
                    V::Map(es) => {
                        for (k, x) in es {
                            keys.push(k.clone());
                            items.push(x.clone());
                        }
                        lens.push(es.len());
                    }
                    _ => lens.push(0),
                }
            }
            let ka = build(ctx, kv[0].data_type(), &keys, false);
            let va = build(ctx, kv[1].data_type(), &items, vary);
            let st = StructArray::try_new_with_length(kv.clone(), vec![ka, va], None, keys.len()).expect("generator: map entries");
            Arc::new(MapArray::try_new(entries.clone(), offsets_i::<i32>(lens.into_iter(), 0), st, nulls_of(ctx, vals, vary), *ordered).expect("generator: map"))
        }
        DataType::Union(ufs, mode) => {
            // a slot masked by a null parent: a union has no null of its own, any valid value will do
            let owned: Vec<V>;
            let vals = if vals.iter().any(|v| matches!(v, V::Null)) {
                owned = vals.iter().map(|v| if matches!(v, V::Null) { default_value(dt) } else { v.clone() }).collect();
                &owned[..]
            } else {
                vals
            };
            let ids: Vec<i8> = vals.iter().map(|v| if let V::Union(id, _) = v { *id } else { panic!("generator: expected Union, got {v:?}") }).collect();
            match mode {
                UnionMode::Sparse => {
                    let children: Vec<ArrayRef> = ufs
                        .iter()
                        .map(|(id, f)| {
                            let col: Vec<V> = vals
                                .iter()
                                .map(|v| match v {
                                    V::Union(i, x) if *i == id => (**x).clone(),
                                    _ => {
                                        if f.is_nullable() {
                                            V::Null
                                        } else {
                                            default_value(f.data_type())
                                        }
                                    }
                                })
                                .collect();
                            build(ctx, f.data_type(), &col, vary)
                        })
                        .collect();
                    Arc::new(UnionArray::try_new(ufs.clone(), ScalarBuffer::from(ids), None, children).expect("generator: sparse union"))
                }
                UnionMode::Dense => {
                    let mut offsets: Vec<i32> = Vec::with_capacity(vals.len());
                    let mut cols: Vec<Vec<V>> = ufs.iter().map(|_| Vec::new()).collect();
                    let id_to_idx: Vec<i8> = ufs.iter().map(|(id, _)| id).collect();
                    for v in vals {
                        if let V::Union(id, x) = v {
                            let ci = id_to_idx.iter().position(|i| i == id).unwrap();
                            offsets.push(cols[ci].len() as i32);
                            cols[ci].push((**x).clone());
                        }
                    }
                    let children: Vec<ArrayRef> = ufs.iter().zip(cols.iter()).map(|((_, f), c)| build(ctx, f.data_type(), c, false)).collect();
                    Arc::new(UnionArray::try_new(ufs.clone(), ScalarBuffer::from(ids), Some(ScalarBuffer::from(offsets)), children).expect("generator: dense union"))
                }
            }
        }
    }
}
