use crate::V;
use arrow_array::cast::AsArray;
use arrow_array::types::*;
use arrow_array::*;
use arrow_schema::{DataType, IntervalUnit, Schema, TimeUnit};

fn prim<T: ArrowPrimitiveType>(a: &dyn Array, f: impl Fn(T::Native) -> V) -> Vec<V> {
    let p = a.as_primitive::<T>();
    (0..p.len()).map(|i| if p.is_null(i) { V::Null } else { f(p.value(i)) }).collect()
}

fn run<R: RunEndIndexType>(a: &dyn Array) -> Vec<V> {
    let r = a.as_any().downcast_ref::<RunArray<R>>().expect("run array");
    let vals = extract(r.values().as_ref());
    (0..r.len()).map(|i| vals[r.get_physical_index(i)].clone()).collect()
}

/// Read an array back into logical values through safe accessors only.
/// Dictionary and run-end encoded arrays resolve to the values they denote.
pub fn extract(a: &dyn Array) -> Vec<V> {
    macro_rules! int {
        ($t:ty) => {
            prim::<$t>(a, |x| V::Int(x as i128))
        };
    }
    match a.data_type() {
        DataType::Null => vec![V::Null; a.len()],
        DataType::Boolean => {
            let b = a.as_boolean();
            (0..b.len()).map(|i| if b.is_null(i) { V::Null } else { V::Bool(b.value(i)) }).collect()
        }
        DataType::Int8 => int!(Int8Type),
        DataType::Int16 => int!(Int16Type),
        DataType::Int32 => int!(Int32Type),
        DataType::Int64 => int!(Int64Type),
        DataType::UInt8 => int!(UInt8Type),
        DataType::UInt16 => int!(UInt16Type),
        DataType::UInt32 => int!(UInt32Type),
        DataType::UInt64 => int!(UInt64Type),
        DataType::Float16 => prim::<Float16Type>(a, |x| V::F16(x.to_bits())),
        DataType::Float32 => prim::<Float32Type>(a, |x| V::F32(x.to_bits())),
        DataType::Float64 => prim::<Float64Type>(a, |x| V::F64(x.to_bits())),
        DataType::Decimal32(_, _) => int!(Decimal32Type),
        DataType::Decimal64(_, _) => int!(Decimal64Type),
        DataType::Decimal128(_, _) => int!(Decimal128Type),
        DataType::Decimal256(_, _) => prim::<Decimal256Type>(a, |x| V::Bin(x.to_le_bytes().to_vec())),
        DataType::Date32 => int!(Date32Type),
        DataType::Date64 => int!(Date64Type),
        DataType::Time32(TimeUnit::Second) => int!(Time32SecondType),
        DataType::Time32(_) => int!(Time32MillisecondType),
        DataType::Time64(TimeUnit::Microsecond) => int!(Time64MicrosecondType),
        DataType::Time64(_) => int!(Time64NanosecondType),
        DataType::Timestamp(TimeUnit::Second, _) => int!(TimestampSecondType),
        DataType::Timestamp(TimeUnit::Millisecond, _) => int!(TimestampMillisecondType),
        DataType::Timestamp(TimeUnit::Microsecond, _) => int!(TimestampMicrosecondType),
        DataType::Timestamp(TimeUnit::Nanosecond, _) => int!(TimestampNanosecondType),
        DataType::Duration(TimeUnit::Second) => int!(DurationSecondType),
        DataType::Duration(TimeUnit::Millisecond) => int!(DurationMillisecondType),
        DataType::Duration(TimeUnit::Microsecond) => int!(DurationMicrosecondType),
        DataType::Duration(TimeUnit::Nanosecond) => int!(DurationNanosecondType),
        DataType::Interval(IntervalUnit::YearMonth) => int!(IntervalYearMonthType),
        DataType::Interval(IntervalUnit::DayTime) => prim::<IntervalDayTimeType>(a, |x| V::Tup(0, x.days as i64, x.milliseconds as i64)),
        DataType::Interval(IntervalUnit::MonthDayNano) => prim::<IntervalMonthDayNanoType>(a, |x| V::Tup(x.months as i64, x.days as i64, x.nanoseconds)),
        DataType::Utf8 => {
            let s = a.as_string::<i32>();
            (0..s.len()).map(|i| if s.is_null(i) { V::Null } else { V::Str(s.value(i).to_string()) }).collect()
        }
        DataType::LargeUtf8 => {
            let s = a.as_string::<i64>();
            (0..s.len()).map(|i| if s.is_null(i) { V::Null } else { V::Str(s.value(i).to_string()) }).collect()
        }
        DataType::Utf8View => {
            let s = a.as_string_view();
            (0..s.len()).map(|i| if s.is_null(i) { V::Null } else { V::Str(s.value(i).to_string()) }).collect()
        }
        DataType::Binary => {
            let s = a.as_binary::<i32>();
            (0..s.len()).map(|i| if s.is_null(i) { V::Null } else { V::Bin(s.value(i).to_vec()) }).collect()
        }
        DataType::LargeBinary => {
            let s = a.as_binary::<i64>();
            (0..s.len()).map(|i| if s.is_null(i) { V::Null } else { V::Bin(s.value(i).to_vec()) }).collect()
        }
        DataType::BinaryView => {
            let s = a.as_binary_view();
            (0..s.len()).map(|i| if s.is_null(i) { V::Null } else { V::Bin(s.value(i).to_vec()) }).collect()
        }
        DataType::FixedSizeBinary(_) => {
            let s = a.as_fixed_size_binary();
            (0..s.len()).map(|i| if s.is_null(i) { V::Null } else { V::Bin(s.value(i).to_vec()) }).collect()
        }
        DataType::Dictionary(_, _) => {
            let d = a.as_any_dictionary();
            let vals = extract(d.values().as_ref());
            let keys = extract(d.keys());
            keys.iter()
                .map(|k| match k {
                    V::Int(k) => vals[*k as usize].clone(),
                    _ => V::Null,
                })
                .collect()
        }
        DataType::RunEndEncoded(re, _) => match re.data_type() {
            DataType::Int16 => run::<Int16Type>(a),
            DataType::Int32 => run::<Int32Type>(a),
            _ => run::<Int64Type>(a),
        },
        DataType::Struct(_) => {
            let s = a.as_struct();
            let cols: Vec<Vec<V>> = s.columns().iter().map(|c| extract(c.as_ref())).collect();
            (0..s.len()).map(|i| if s.is_null(i) { V::Null } else { V::Struct(cols.iter().map(|c| c[i].clone()).collect()) }).collect()
        }
        DataType::List(_) => {
            let l = a.as_list::<i32>();
            let child = extract(l.values().as_ref());
            let o = l.value_offsets();
            (0..l.len()).map(|i| if l.is_null(i) { V::Null } else { V::List(child[o[i] as usize..o[i + 1] as usize].to_vec()) }).collect()
        }
        DataType::LargeList(_) => {
            let l = a.as_list::<i64>();
            let child = extract(l.values().as_ref());
            let o = l.value_offsets();
            (0..l.len()).map(|i| if l.is_null(i) { V::Null } else { V::List(child[o[i] as usize..o[i + 1] as usize].to_vec()) }).collect()
        }
        DataType::ListView(_) => {
            let l = a.as_list_view::<i32>();
            let child = extract(l.values().as_ref());
            (0..l.len())
                .map(|i| if l.is_null(i) { V::Null } else { V::List(child[l.value_offsets()[i] as usize..(l.value_offsets()[i] + l.value_sizes()[i]) as usize].to_vec()) })
                .collect()
        }
        DataType::LargeListView(_) => {
            let l = a.as_list_view::<i64>();
            let child = extract(l.values().as_ref());
            (0..l.len())
                .map(|i| if l.is_null(i) { V::Null } else { V::List(child[l.value_offsets()[i] as usize..(l.value_offsets()[i] + l.value_sizes()[i]) as usize].to_vec()) })
                .collect()
        }
        DataType::FixedSizeList(_, n) => {
            let l = a.as_fixed_size_list();
            let child = extract(l.values().as_ref());
            let n = *n as usize;
            (0..l.len())
                .map(|i| {
                    if l.is_null(i) {
                        V::Null
                    } else {
                        let s = l.value_offset(i) as usize;
                        V::List(child[s..s + n].to_vec())
                    }
                })
                .collect()
        }
        DataType::Map(_, _) => {
            let m = a.as_map();
            let ks = extract(m.keys().as_ref());
            let vs = extract(m.values().as_ref());
            let o = m.value_offsets();
            (0..m.len())
                .map(|i| if m.is_null(i) { V::Null } else { V::Map((o[i] as usize..o[i + 1] as usize).map(|j| (ks[j].clone(), vs[j].clone())).collect()) })
                .collect()
        }
        DataType::Union(ufs, _) => {
            let u = a.as_union();
            let children: Vec<(i8, Vec<V>)> = ufs.iter().map(|(id, _)| (id, extract(u.child(id).as_ref()))).collect();
            (0..u.len())
                .map(|i| {
                    let id = u.type_id(i);
                    let off = u.value_offset(i);
                    let c = &children.iter().find(|(cid, _)| *cid == id).expect("union child").1;
                    V::Union(id, Box::new(c[off].clone()))
                })
                .collect()
        }
    }
}

/// Does this array (or a nested child) denote more than `limit` slots? A run-end encoded array can
/// legitimately do so with a few bytes; materialising its values is then not feasible.
pub fn exceeds(a: &dyn Array, limit: usize) -> bool {
    if a.len() > limit {
        return true;
    }
    let d = a.to_data();
    d.child_data().iter().any(|c| exceeds(&arrow_array::make_array(c.clone()), limit))
}

/// Row-major logical rows of a batch.
pub fn rows_of(b: &RecordBatch) -> Vec<Vec<V>> {
    let cols: Vec<Vec<V>> = b.columns().iter().map(|c| extract(c.as_ref())).collect();
    (0..b.num_rows()).map(|i| cols.iter().map(|c| c[i].clone()).collect()).collect()
}

static PHYSICAL_NULLABILITY: std::sync::atomic::AtomicBool = std::sync::atomic::AtomicBool::new(false);

/// For readers of untrusted bytes (C08): judge "non-nullable column contains nulls" by the physical null count,
/// as `RecordBatch::try_new` does, not by logical nulls (a null inside a dictionary's values, a null run).
pub fn set_physical_nullability(on: bool) {
    PHYSICAL_NULLABILITY.store(on, std::sync::atomic::Ordering::Relaxed);
}

/// Full validation of a batch handed back by a reader under faults.
pub fn validate_batch(b: &RecordBatch) -> Result<(), String> {
    if b.schema().fields().len() != b.num_columns() {
        return Err("column count differs from schema".into());
    }
    for (f, c) in b.schema().fields().iter().zip(b.columns()) {
        if f.data_type() != c.data_type() {
            return Err(format!("column {} has type {:?}, schema says {:?}", f.name(), c.data_type(), f.data_type()));
        }
        if c.len() != b.num_rows() {
            return Err(format!("column {} has {} rows, batch has {}", f.name(), c.len(), b.num_rows()));
        }
        // (a union has no validity of its own and arrow-rs declares union fields non-nullable by convention)
        let nulls = if PHYSICAL_NULLABILITY.load(std::sync::atomic::Ordering::Relaxed) { c.null_count() } else { c.logical_null_count() };
        if !f.is_nullable() && nulls > 0 && !matches!(f.data_type(), DataType::Null | DataType::Union(_, _)) {
            return Err(format!("non-nullable column {} contains nulls", f.name()));
        }
        c.to_data().validate_full().map_err(|e| format!("column {} invalid: {e}", f.name()))?;
        utf8_check(c.as_ref()).map_err(|e| format!("column {} invalid: {e}", f.name()))?;
    }
    Ok(())
}

/// Independent of arrow's own validation: every string value, at any nesting depth, is checked with
/// `std::str::from_utf8` on its raw bytes (read through the byte-level safe accessors).
pub fn utf8_check(a: &dyn Array) -> Result<(), String> {
    fn bad(i: usize, e: std::str::Utf8Error) -> String {
        format!("string value {i} is not valid UTF-8 ({e})")
    }
    match a.data_type() {
        DataType::Utf8 => {
            let s = a.as_string::<i32>();
            let (o, d) = (s.value_offsets(), s.value_data());
            for i in 0..s.len() {
                let (lo, hi) = (o[i] as usize, o[i + 1] as usize);
                let b = d.get(lo..hi).ok_or_else(|| format!("string value {i} has offsets {lo}..{hi} outside its {} data bytes", d.len()))?;
                std::str::from_utf8(b).map_err(|e| bad(i, e))?;
            }
        }
        DataType::LargeUtf8 => {
            let s = a.as_string::<i64>();
            let (o, d) = (s.value_offsets(), s.value_data());
            for i in 0..s.len() {
                let (lo, hi) = (o[i] as usize, o[i + 1] as usize);
                let b = d.get(lo..hi).ok_or_else(|| format!("string value {i} has offsets {lo}..{hi} outside its {} data bytes", d.len()))?;
                std::str::from_utf8(b).map_err(|e| bad(i, e))?;
            }
        }
        DataType::Utf8View => {
            let s = a.as_string_view();
            for i in 0..s.len() {
                if s.is_valid(i) {
                    std::str::from_utf8(s.value(i).as_bytes()).map_err(|e| bad(i, e))?;
                }
            }
        }
        _ => {
            if a.len() <= 2_000_000 {
                for c in a.to_data().child_data() {
                    if c.len() <= 2_000_000 {
                        utf8_check(&arrow_array::make_array(c.clone()))?;
                    }
                }
            }
        }
    }
    Ok(())
}

/// Structural rendering of a type: names, types, nullability (and metadata) of every nested field, and
/// nothing else (no dict_id / dict_is_ordered, which are not part of what a round trip promises).
pub fn type_sig(dt: &DataType, with_metadata: bool) -> String {
    fn field(f: &arrow_schema::Field, with_metadata: bool) -> String {
        let mut s = format!("{}:{}:{}", f.name(), type_sig(f.data_type(), with_metadata), if f.is_nullable() { "null" } else { "nonnull" });
        if with_metadata && !f.metadata().is_empty() {
            let mut m: Vec<_> = f.metadata().iter().collect();
            m.sort();
            s.push_str(&format!("{m:?}"));
        }
        s
    }
    use DataType::*;
    match dt {
        List(f) => format!("List<{}>", field(f, with_metadata)),
        LargeList(f) => format!("LargeList<{}>", field(f, with_metadata)),
        ListView(f) => format!("ListView<{}>", field(f, with_metadata)),
        LargeListView(f) => format!("LargeListView<{}>", field(f, with_metadata)),
        FixedSizeList(f, n) => format!("FixedSizeList<{};{n}>", field(f, with_metadata)),
        Map(f, sorted) => format!("Map<{};{sorted}>", field(f, with_metadata)),
        Struct(fs) => format!("Struct<{}>", fs.iter().map(|f| field(f, with_metadata)).collect::<Vec<_>>().join(",")),
        Union(ufs, mode) => format!("Union<{mode:?};{}>", ufs.iter().map(|(i, f)| format!("{i}={}", field(f, with_metadata))).collect::<Vec<_>>().join(",")),
        Dictionary(k, v) => format!("Dictionary<{};{}>", type_sig(k, with_metadata), type_sig(v, with_metadata)),
        RunEndEncoded(r, v) => format!("RunEndEncoded<{};{}>", field(r, with_metadata), field(v, with_metadata)),
        other => format!("{other:?}"),
    }
}

/// Canonical textual signature of a schema (names, types, nullability, metadata in sorted order).
pub fn schema_sig(s: &Schema, with_metadata: bool) -> String {
    let mut out = String::new();
    for f in s.fields() {
        out.push_str(&format!("{}:{}:{}", f.name(), type_sig(f.data_type(), with_metadata), f.is_nullable()));
        if with_metadata {
            let mut m: Vec<_> = f.metadata().iter().collect();
            m.sort();
            out.push_str(&format!("{m:?}"));
        }
        out.push(';');
    }
    if with_metadata {
        let mut m: Vec<_> = s.metadata().iter().collect();
        m.sort();
        out.push_str(&format!("{m:?}"));
    }
    out
}
