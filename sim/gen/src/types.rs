use crate::V;
use arrow_schema::{DataType, Field, Fields, IntervalUnit, Schema, SchemaRef, TimeUnit, UnionFields, UnionMode};
use simcore::Ctx;
use std::collections::HashMap;
use std::sync::Arc;

#[derive(Clone, Copy, Debug, PartialEq, Eq)]
pub enum Leaf {
    Null,
    Bool,
    I8,
    I16,
    I32,
    I64,
    U8,
    U16,
    U32,
    U64,
    F16,
    F32,
    F64,
    Dec32,
    Dec64,
    Dec128,
    Dec256,
    Date32,
    Date64,
    Time32,
    Time64,
    Ts,
    TsTz,
    Duration,
    IntervalYM,
    IntervalDT,
    IntervalMDN,
    Utf8,
    LargeUtf8,
    Utf8View,
    Binary,
    LargeBinary,
    BinaryView,
    Fsb,
}

pub const ALL_LEAVES: &[Leaf] = &[
    Leaf::Null, Leaf::Bool, Leaf::I8, Leaf::I16, Leaf::I32, Leaf::I64, Leaf::U8, Leaf::U16, Leaf::U32, Leaf::U64, Leaf::F16, Leaf::F32, Leaf::F64,
    Leaf::Dec32, Leaf::Dec64, Leaf::Dec128, Leaf::Dec256, Leaf::Date32, Leaf::Date64, Leaf::Time32, Leaf::Time64, Leaf::Ts, Leaf::TsTz, Leaf::Duration,
    Leaf::IntervalYM, Leaf::IntervalDT, Leaf::IntervalMDN, Leaf::Utf8, Leaf::LargeUtf8, Leaf::Utf8View, Leaf::Binary, Leaf::LargeBinary, Leaf::BinaryView, Leaf::Fsb,
];

#[derive(Clone, Copy, Debug, PartialEq, Eq)]
pub enum StrStyle {
    /// short ascii words
    Plain,
    /// delimiters, quotes, CR/LF, multi-byte and non-BMP characters, backslashes
    Text,
    /// like Text but without NUL / raw control characters other than \t \n \r
    TextNoCtl,
}

#[derive(Clone, Debug)]
pub struct Profile {
    pub leaves: Vec<Leaf>,
    pub dict: bool,
    pub ree: bool,
    pub strukt: bool,
    pub list: bool,
    pub large_list: bool,
    pub list_view: bool,
    pub fsl: bool,
    pub map: bool,
    pub union: bool,
    pub max_depth: u32,
    pub max_cols: usize,
    pub min_cols: usize,
    pub str_style: StrStyle,
    pub vary_physical: bool,
    pub null_rate: u64, // per 16
    pub nan: bool,
    pub extreme: bool,
    pub field_metadata: bool,
    pub zero_cols: bool,
    /// dictionary value types are restricted to these leaves
    pub dict_values: Vec<Leaf>,
    /// decimals limited to this precision (0 = type maximum)
    pub max_str_len: usize,
    /// how many of 8 plain strings are long (up to 3 x max_str_len)
    pub long_str_rate: u64,
    pub max_list_len: usize,
    /// allow 8-bit dictionary keys (whose key space a concatenation can exhaust)
    pub small_dict_keys: bool,
    /// every field is declared nullable (CSV cannot tell an empty string from a null)
    pub all_nullable: bool,
}

impl Profile {
    pub fn flat(leaves: &[Leaf]) -> Self {
        Profile {
            leaves: leaves.to_vec(),
            dict: false,
            ree: false,
            strukt: false,
            list: false,
            large_list: false,
            list_view: false,
            fsl: false,
            map: false,
            union: false,
            max_depth: 0,
            max_cols: 4,
            min_cols: 1,
            str_style: StrStyle::Plain,
            vary_physical: true,
            null_rate: 3,
            nan: true,
            extreme: true,
            field_metadata: false,
            zero_cols: false,
            dict_values: vec![Leaf::Utf8, Leaf::I32, Leaf::Binary],
            max_str_len: 12,
            long_str_rate: 1,
            max_list_len: 4,
            small_dict_keys: true,
            all_nullable: false,
        }
    }
    pub fn everything() -> Self {
        Profile { dict: true, ree: true, strukt: true, list: true, large_list: true, list_view: true, fsl: true, map: true, union: true, max_depth: 3, ..Profile::flat(ALL_LEAVES) }
    }
    fn nest_options(&self) -> Vec<u8> {
        let mut o = Vec::new();
        for (i, b) in [self.dict, self.ree, self.strukt, self.list, self.large_list, self.list_view, self.fsl, self.map, self.union].iter().enumerate() {
            if *b {
                o.push(i as u8);
            }
        }
        o
    }
}

fn unit(ctx: &Ctx) -> TimeUnit {
    *ctx.pick(&[TimeUnit::Second, TimeUnit::Millisecond, TimeUnit::Microsecond, TimeUnit::Nanosecond], "unit")
}

pub fn leaf_type(ctx: &Ctx, l: Leaf) -> DataType {
    match l {
        Leaf::Null => DataType::Null,
        Leaf::Bool => DataType::Boolean,
        Leaf::I8 => DataType::Int8,
        Leaf::I16 => DataType::Int16,
        Leaf::I32 => DataType::Int32,
        Leaf::I64 => DataType::Int64,
        Leaf::U8 => DataType::UInt8,
        Leaf::U16 => DataType::UInt16,
        Leaf::U32 => DataType::UInt32,
        Leaf::U64 => DataType::UInt64,
        Leaf::F16 => DataType::Float16,
        Leaf::F32 => DataType::Float32,
        Leaf::F64 => DataType::Float64,
        Leaf::Dec32 => {
            let p = ctx.range(1, 9, "prec") as u8;
            DataType::Decimal32(p, ctx.range(0, p as i64, "scale") as i8)
        }
        Leaf::Dec64 => {
            let p = ctx.range(1, 18, "prec") as u8;
            DataType::Decimal64(p, ctx.range(0, p as i64, "scale") as i8)
        }
        Leaf::Dec128 => {
            let p = ctx.range(1, 38, "prec") as u8;
            DataType::Decimal128(p, ctx.range(0, p as i64, "scale") as i8)
        }
        Leaf::Dec256 => {
            let p = ctx.range(1, 76, "prec") as u8;
            DataType::Decimal256(p, ctx.range(0, p as i64, "scale") as i8)
        }
        Leaf::Date32 => DataType::Date32,
        Leaf::Date64 => DataType::Date64,
        Leaf::Time32 => DataType::Time32(*ctx.pick(&[TimeUnit::Second, TimeUnit::Millisecond], "unit")),
        Leaf::Time64 => DataType::Time64(*ctx.pick(&[TimeUnit::Microsecond, TimeUnit::Nanosecond], "unit")),
        Leaf::Ts => DataType::Timestamp(unit(ctx), None),
        Leaf::TsTz => DataType::Timestamp(unit(ctx), Some((*ctx.pick(&["UTC", "+02:00", "-07:30"], "tz")).into())),
        Leaf::Duration => DataType::Duration(unit(ctx)),
        Leaf::IntervalYM => DataType::Interval(IntervalUnit::YearMonth),
        Leaf::IntervalDT => DataType::Interval(IntervalUnit::DayTime),
        Leaf::IntervalMDN => DataType::Interval(IntervalUnit::MonthDayNano),
        Leaf::Utf8 => DataType::Utf8,
        Leaf::LargeUtf8 => DataType::LargeUtf8,
        Leaf::Utf8View => DataType::Utf8View,
        Leaf::Binary => DataType::Binary,
        Leaf::LargeBinary => DataType::LargeBinary,
        Leaf::BinaryView => DataType::BinaryView,
        Leaf::Fsb => DataType::FixedSizeBinary(ctx.range(0, 5, "fsb") as i32 * if ctx.chance(1, 8, "fsb.big") { 4 } else { 1 }),
    }
}

fn child_field(ctx: &Ctx, name: &str, p: &Profile, depth: u32) -> Field {
    let dt = gen_type(ctx, p, depth);
    // a union has no validity of its own: its nulls are its children's, so it is always declared nullable
    let nullable = dt == DataType::Null || !ctx.chance(1, 4, "nonnull") || p.all_nullable || matches!(dt, DataType::Union(_, _));
    Field::new(name, dt, nullable)
}

pub fn gen_type(ctx: &Ctx, p: &Profile, depth: u32) -> DataType {
    let nests = p.nest_options();
    if depth < p.max_depth && !nests.is_empty() && ctx.chance(5, 16, "nest") {
        match *ctx.pick(&nests, "nest.kind") {
            0 => {
                let keys = [DataType::Int32, DataType::Int16, DataType::UInt16, DataType::UInt32, DataType::Int64, DataType::UInt64, DataType::Int8, DataType::UInt8];
                let key = keys[ctx.below(if p.small_dict_keys { 8 } else { 6 }, "dict.key")].clone();
                let leaf = *ctx.pick(&p.dict_values, "dict.val");
                DataType::Dictionary(Box::new(key), Box::new(leaf_type(ctx, leaf)))
            }
            1 => {
                let re = ctx.pick(&[DataType::Int32, DataType::Int16, DataType::Int64], "ree.key").clone();
                let leaves: Vec<Leaf> = p.leaves.iter().copied().filter(|l| *l != Leaf::Null).collect();
                let vt = if leaves.is_empty() { DataType::Int32 } else { leaf_type(ctx, *ctx.pick(&leaves, "ree.val")) };
                DataType::RunEndEncoded(Arc::new(Field::new("run_ends", re, false)), Arc::new(Field::new("values", vt, true)))
            }
            2 => {
                let n = ctx.range(1, 3, "struct.n") as usize;
                let fs: Vec<Field> = (0..n).map(|i| child_field(ctx, &format!("s{i}"), p, depth + 1)).collect();
                DataType::Struct(Fields::from(fs))
            }
            3 => DataType::List(Arc::new(child_field(ctx, "item", p, depth + 1))),
            4 => DataType::LargeList(Arc::new(child_field(ctx, "item", p, depth + 1))),
            5 => {
                if ctx.chance(1, 2, "lv.large") {
                    DataType::LargeListView(Arc::new(child_field(ctx, "item", p, depth + 1)))
                } else {
                    DataType::ListView(Arc::new(child_field(ctx, "item", p, depth + 1)))
                }
            }
            6 => DataType::FixedSizeList(Arc::new(child_field(ctx, "item", p, depth + 1)), ctx.range(0, 3, "fsl.n") as i32),
            7 => {
                let key_leaves: Vec<Leaf> = p.leaves.iter().copied().filter(|l| matches!(l, Leaf::Utf8 | Leaf::I32 | Leaf::I64 | Leaf::LargeUtf8)).collect();
                let kt = if key_leaves.is_empty() { DataType::Utf8 } else { leaf_type(ctx, *ctx.pick(&key_leaves, "map.key")) };
                let vf = child_field(ctx, "value", p, depth + 1);
                let entries = Field::new("entries", DataType::Struct(Fields::from(vec![Field::new("key", kt, false), vf])), false);
                DataType::Map(Arc::new(entries), false)
            }
            _ => {
                let n = ctx.range(1, 3, "union.n") as usize;
                let fs: Vec<Field> = (0..n).map(|i| child_field(ctx, &format!("u{i}"), p, depth + 1)).collect();
                let ids: Vec<i8> = if ctx.chance(1, 2, "union.ids") { (0..n as i8).collect() } else { (0..n as i8).map(|i| i * 3 + 2).collect() };
                let mode = if ctx.chance(1, 2, "union.mode") { UnionMode::Dense } else { UnionMode::Sparse };
                DataType::Union(UnionFields::try_new(ids, fs).expect("union fields"), mode)
            }
        }
    } else {
        leaf_type(ctx, *ctx.pick(&p.leaves, "leaf"))
    }
}

pub fn gen_schema(ctx: &Ctx, p: &Profile) -> SchemaRef {
    let n = if p.zero_cols && ctx.chance(1, 24, "zero_cols") { 0 } else { ctx.range(p.min_cols as i64, p.max_cols as i64, "cols") as usize };
    let fields: Vec<Field> = (0..n)
        .map(|i| {
            let mut f = child_field(ctx, &format!("c{i}"), p, 0);
            if matches!(f.data_type(), DataType::Union(_, _)) {
                // a union has no validity of its own; keep the declared nullability consistent
                f = f.with_nullable(true);
            }
            if p.field_metadata && ctx.chance(1, 6, "fmeta") {
                f = f.with_metadata(HashMap::from([("k".to_string(), format!("v{i}"))]));
            }
            f
        })
        .collect();
    let mut s = Schema::new(fields);
    if p.field_metadata && ctx.chance(1, 4, "smeta") {
        s = s.with_metadata(HashMap::from([("origin".to_string(), "sim".to_string()), ("b".to_string(), "2".to_string())]));
    }
    Arc::new(s)
}

const WORDS: &[&str] = &["", "a", "b", "ab", "foo", "bar", "baz", "hello", "world", "x", "yz", "null", "NULL", "0", "1", "true", "-1.5", "N/A"];
const TEXT_BITS: &[&str] = &[",", "\"", "\"\"", "\n", "\r\n", "\r", "\t", " ", "\\", "\\n", "\\u0041", "é", "ß", "日本", "\u{1F600}", "\u{10FFFF}", "'", "{", "}", "[", "]", ":", ";", "|", "a", "Z", "9", "\u{7f}", "/"];
const CTL_BITS: &[&str] = &["\u{0}", "\u{1}", "\u{8}", "\u{c}", "\u{1f}"];

pub fn gen_string(ctx: &Ctx, p: &Profile) -> String {
    match p.str_style {
        StrStyle::Plain => {
            if ctx.chance(p.long_str_rate, 8, "str.long") {
                let n = ctx.below(p.max_str_len.max(13) * 3, "str.len");
                (0..n).map(|i| (b'a' + ((i * 7 + n) % 26) as u8) as char).collect()
            } else {
                ctx.pick(WORDS, "word").to_string()
            }
        }
        StrStyle::Text | StrStyle::TextNoCtl => {
            if ctx.chance(1, 3, "str.word") {
                return ctx.pick(WORDS, "word").to_string();
            }
            let n = ctx.below(p.max_str_len.min(8) + 1, "str.n");
            let mut s = String::new();
            for _ in 0..n {
                if p.str_style == StrStyle::Text && ctx.chance(1, 12, "str.ctl") {
                    s.push_str(ctx.pick(CTL_BITS, "ctl"));
                } else {
                    s.push_str(ctx.pick(TEXT_BITS, "bit"));
                }
            }
            s
        }
    }
}

fn int_in(ctx: &Ctx, lo: i128, hi: i128, p: &Profile) -> i128 {
    match ctx.draw(8, "int") {
        0 | 1 => ctx.range(-3, 3, "int.small") as i128,
        2 if p.extreme => lo,
        3 if p.extreme => hi,
        4 if p.extreme => (hi - ctx.below(3, "int.nearhi") as i128).max(lo),
        5 => ctx.range(-1000, 1000, "int.mid") as i128,
        _ => {
            let span = hi.wrapping_sub(lo) as u128;
            let r = ((ctx.draw(u64::MAX, "int.hi") as u128) << 64 | ctx.draw(u64::MAX, "int.lo") as u128) % span.max(1);
            lo.wrapping_add(r as i128)
        }
    }
    .clamp(lo, hi)
}

fn pow10(p: u8) -> i128 {
    10i128.pow(p as u32)
}

pub fn gen_value(ctx: &Ctx, dt: &DataType, nullable: bool, p: &Profile, depth: u32) -> V {
    if matches!(dt, DataType::Null) {
        return V::Null;
    }
    // unions carry nullness in their children
    if nullable && !matches!(dt, DataType::Union(_, _)) && p.null_rate > 0 && ctx.chance(p.null_rate, 16, "null") {
        return V::Null;
    }
    match dt {
        DataType::Null => V::Null,
        DataType::Boolean => V::Bool(ctx.chance(1, 2, "bool")),
        DataType::Int8 => V::Int(int_in(ctx, i8::MIN as i128, i8::MAX as i128, p)),
        DataType::Int16 => V::Int(int_in(ctx, i16::MIN as i128, i16::MAX as i128, p)),
        // text formats print dates through chrono: keep them within years 1..9999 unless extremes are wanted
        DataType::Date32 if !p.extreme => V::Int(int_in(ctx, -700_000, 2_900_000, p)),
        DataType::Int32 | DataType::Date32 | DataType::Interval(IntervalUnit::YearMonth) => V::Int(int_in(ctx, i32::MIN as i128, i32::MAX as i128, p)),
        DataType::Time32(u) => V::Int(int_in(ctx, 0, if *u == TimeUnit::Second { 86_399 } else { 86_399_999 }, p)),
        DataType::Time64(u) => V::Int(int_in(ctx, 0, if *u == TimeUnit::Microsecond { 86_399_999_999 } else { 86_399_999_999_999 }, p)),
        DataType::Int64 | DataType::Timestamp(_, _) | DataType::Duration(_) => V::Int(int_in(ctx, i64::MIN as i128, i64::MAX as i128, p)),
        DataType::Date64 => V::Int(int_in(ctx, -100_000, 100_000, p) * 86_400_000),
        DataType::UInt8 => V::Int(int_in(ctx, 0, u8::MAX as i128, p)),
        DataType::UInt16 => V::Int(int_in(ctx, 0, u16::MAX as i128, p)),
        DataType::UInt32 => V::Int(int_in(ctx, 0, u32::MAX as i128, p)),
        DataType::UInt64 => V::Int(int_in(ctx, 0, u64::MAX as i128, p)),
        DataType::Float16 => V::F16(match ctx.draw(8, "f16") {
            0 => 0,
            1 if p.nan => 0x7e00,
            2 if p.nan => 0xfe01,
            3 => 0x8000,
            4 if p.extreme => 0x7c00,
            _ => half::f16::from_f32(ctx.range(-2000, 2000, "f16.v") as f32 / 8.0).to_bits(),
        }),
        DataType::Float32 => V::F32(match ctx.draw(10, "f32") {
            0 => 0,
            1 if p.nan => f32::NAN.to_bits(),
            2 if p.nan => 0xffc0_0001,
            3 if p.nan => 0x7f80_0001, // signalling NaN payload
            4 => (-0.0f32).to_bits(),
            5 if p.extreme => f32::INFINITY.to_bits(),
            6 if p.extreme => f32::MIN_POSITIVE.to_bits() >> 3,
            7 if p.extreme => f32::MAX.to_bits(),
            _ => (ctx.range(-100_000, 100_000, "f32.v") as f32 / 16.0).to_bits(),
        }),
        DataType::Float64 => V::F64(match ctx.draw(10, "f64") {
            0 => 0,
            1 if p.nan => f64::NAN.to_bits(),
            2 if p.nan => 0xfff8_0000_0000_0001,
            3 if p.nan => 0x7ff0_0000_0000_0001,
            4 => (-0.0f64).to_bits(),
            5 if p.extreme => f64::NEG_INFINITY.to_bits(),
            6 if p.extreme => 1,
            7 if p.extreme => f64::MAX.to_bits(),
            8 => (ctx.range(-1_000_000, 1_000_000, "f64.v") as f64 * 0.1).to_bits(),
            _ => (ctx.range(-100_000, 100_000, "f64.v") as f64 / 16.0).to_bits(),
        }),
        DataType::Decimal32(pr, _) | DataType::Decimal64(pr, _) | DataType::Decimal128(pr, _) => {
            let m = pow10(*pr) - 1;
            V::Int(int_in(ctx, -m, m, p))
        }
        DataType::Decimal256(pr, _) => {
            // keep within 38 digits of magnitude so that i128 suffices; sign-extend to 32 bytes
            let m = pow10((*pr).min(38)) - 1;
            let v = int_in(ctx, -m, m, p);
            let mut b = vec![if v < 0 { 0xffu8 } else { 0 }; 32];
            b[..16].copy_from_slice(&v.to_le_bytes());
            V::Bin(b)
        }
        DataType::Interval(IntervalUnit::DayTime) => V::Tup(0, int_in(ctx, i32::MIN as i128, i32::MAX as i128, p) as i64, int_in(ctx, i32::MIN as i128, i32::MAX as i128, p) as i64),
        DataType::Interval(IntervalUnit::MonthDayNano) => V::Tup(
            int_in(ctx, i32::MIN as i128, i32::MAX as i128, p) as i64,
            int_in(ctx, i32::MIN as i128, i32::MAX as i128, p) as i64,
            int_in(ctx, i64::MIN as i128, i64::MAX as i128, p) as i64,
        ),
        DataType::Utf8 | DataType::LargeUtf8 | DataType::Utf8View => {
            let mut s = gen_string(ctx, p);
            if matches!(dt, DataType::Utf8View) && ctx.chance(1, 4, "view.long") {
                // force the out-of-line representation (> 12 bytes)
                s.push_str("-0123456789abcdef");
            }
            V::Str(s)
        }
        DataType::Binary | DataType::LargeBinary | DataType::BinaryView => {
            let mut n = ctx.size(p.max_str_len, "bin.len");
            if matches!(dt, DataType::BinaryView) && ctx.chance(1, 4, "view.long") {
                n += 13;
            }
            V::Bin((0..n).map(|_| ctx.draw(256, "byte") as u8).collect())
        }
        DataType::FixedSizeBinary(n) => V::Bin((0..*n).map(|_| ctx.draw(256, "byte") as u8).collect()),
        DataType::Dictionary(_, vt) => {
            // low cardinality so that dictionaries actually repeat
            let save = ctx.draw(4, "dict.card");
            let v = gen_value(ctx, vt, false, p, depth + 1);
            match (&v, save) {
                (V::Str(_), 0 | 1) => V::Str(ctx.pick(&["a", "b", "c"], "dict.s").to_string()),
                (V::Int(_), 0 | 1) => V::Int(ctx.range(0, 2, "dict.i") as i128),
                _ => v,
            }
        }
        DataType::RunEndEncoded(_, vf) => {
            // nullness of a run-end-encoded value is the nullness of the column: already decided above
            gen_value(ctx, vf.data_type(), false, p, depth + 1)
        }
        DataType::Struct(fs) => V::Struct(fs.iter().map(|f| gen_value(ctx, f.data_type(), f.is_nullable(), p, depth + 1)).collect()),
        DataType::List(f) | DataType::LargeList(f) | DataType::ListView(f) | DataType::LargeListView(f) => {
            let n = ctx.size(p.max_list_len, "list.len");
            V::List((0..n).map(|_| gen_value(ctx, f.data_type(), f.is_nullable(), p, depth + 1)).collect())
        }
        DataType::FixedSizeList(f, n) => V::List((0..*n).map(|_| gen_value(ctx, f.data_type(), f.is_nullable(), p, depth + 1)).collect()),
        DataType::Map(entries, _) => {
            let DataType::Struct(kv) = entries.data_type() else { unreachable!() };
            let n = ctx.size(p.max_list_len.min(3), "map.len");
            let mut out: Vec<(V, V)> = Vec::new();
            for i in 0..n {
                let mut k = gen_value(ctx, kv[0].data_type(), false, p, depth + 1);
                // distinct keys within one map
                match &mut k {
                    V::Str(s) => s.push_str(&format!("#{i}")),
                    V::Int(x) => *x = (*x & !0xf) | i as i128,
                    _ => {}
                }
                if out.iter().any(|(kk, _)| *kk == k) {
                    continue;
                }
                let v = gen_value(ctx, kv[1].data_type(), kv[1].is_nullable(), p, depth + 1);
                out.push((k, v));
            }
            V::Map(out)
        }
        DataType::Union(ufs, _) => {
            let all: Vec<(i8, &Arc<Field>)> = ufs.iter().collect();
            let (id, f) = all[ctx.below(all.len(), "union.pick")];
            V::Union(id, Box::new(gen_value(ctx, f.data_type(), f.is_nullable(), p, depth + 1)))
        }
    }
}
