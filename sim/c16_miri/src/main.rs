//! C16 under Miri: `c16_miri <first_seed> <count> [threads] [ops]`. One workload seed = one set of per-thread
//! operation lists; Miri's own seed (-Zmiri-seed / -Zmiri-many-seeds) decides the interleaving.
//! Also runs natively (real threads, OS scheduling) as a smoke test; only the Miri runs are evidence.
fn main() {
    let a: Vec<String> = std::env::args().collect();
    let first: u64 = a.get(1).and_then(|s| s.parse().ok()).unwrap_or(1);
    let count: u64 = a.get(2).and_then(|s| s.parse().ok()).unwrap_or(1);
    let threads: usize = a.get(3).and_then(|s| s.parse().ok()).unwrap_or(3);
    let ops: usize = a.get(4).and_then(|s| s.parse().ok()).unwrap_or(12);
    for seed in first..first + count {
        if let Err(e) = own::threads::run(seed, threads, ops) {
            println!("C16-VIOLATION workload_seed={seed} threads={threads} ops={ops} {e}");
            std::process::exit(1);
        }
    }
    println!("C16-OK workload_seeds={first}..{} threads={threads} ops={ops}", first + count);
}
