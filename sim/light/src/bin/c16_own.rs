//! C16: shared buffers are immutable and their memory is released exactly once (single-threaded histories).

use own::{Chooser, World};
use simcore::{Ctx, Scenario, R};

#[global_allocator]
static A: simcore::alloc::CapAlloc = simcore::alloc::CapAlloc;

struct TapeChooser<'a>(&'a Ctx);
impl Chooser for TapeChooser<'_> {
    fn draw(&mut self, bound: u64, label: &'static str) -> u64 {
        self.0.draw(bound, label)
    }
    fn event(&mut self, tag: &str, a: u64, b: u64) {
        self.0.shape(tag, a, b);
    }
    fn probe(&mut self, name: &str) {
        self.0.probe(name);
    }
}

fn history(ctx: &Ctx) -> R {
    simcore::runner::set_component("buffer");
    let mut ch = TapeChooser(ctx);
    let mut w = World::new();
    let steps = 4 + ctx.below(40, "own.steps");
    ctx.nontrivial();
    for _ in 0..steps {
        ctx.step();
        if let Err(v) = w.step(&mut ch) {
            return Err(ctx.violation(v.class, &v.key, v.detail));
        }
    }
    match w.finish(&mut ch) {
        Ok(_) => Ok(()),
        Err(v) => Err(ctx.violation(v.class, &v.key, v.detail)),
    }
}

fn main() {
    simcore::main_with("C16", &[Scenario { name: "history", runs_quick: 6_000_000, runs_thorough: 60_000_000, f: history }]);
}
