//! C03 (history part): BatchCoalescer driven by a simulated producer / consumer pair and checked
//! against a row-level reference model after every step.

use arrow_array::types::*;
use arrow_array::*;
use arrow_buffer::NullBuffer;
use arrow_schema::{DataType, Field, Schema, SchemaRef};
use arrow_select::coalesce::BatchCoalescer;
use gen::{diff_rows, gen_lbatch, realise, rows_of, types_api::*, validate_batch, LBatch, V};
use simcore::{bail_v, Ctx, Scenario, R};
use std::collections::VecDeque;
use std::sync::Arc;

#[global_allocator]
static A: simcore::alloc::CapAlloc = simcore::alloc::CapAlloc;

type Row = Vec<V>;

struct Model {
    target: usize,
    pending: Vec<Row>,
    /// (rows, must_be_exact_target)
    completed: VecDeque<(Vec<Row>, bool)>,
    /// once a bypass limit has been configured only the row sequence is constrained
    bypass_seen: bool,
    emitted_or_buffered: usize,
}

impl Model {
    fn push(&mut self, rows: Vec<Row>) {
        self.emitted_or_buffered += rows.len();
        self.pending.extend(rows);
        while self.pending.len() >= self.target {
            let rest = self.pending.split_off(self.target);
            let full = std::mem::replace(&mut self.pending, rest);
            self.completed.push_back((full, true));
        }
    }
    fn finish(&mut self) {
        if !self.pending.is_empty() {
            let p = std::mem::take(&mut self.pending);
            self.completed.push_back((p, false));
        }
    }
}

fn profile(ctx: &Ctx) -> Profile {
    let specialised = [
        Leaf::I8, Leaf::I32, Leaf::I64, Leaf::U16, Leaf::U64, Leaf::F32, Leaf::F64, Leaf::Dec128, Leaf::Date32, Leaf::Ts, Leaf::Utf8View, Leaf::BinaryView, Leaf::IntervalMDN, Leaf::Dec256,
        Leaf::F16, Leaf::Duration,
    ];
    let mut p = if ctx.chance(1, 2, "profile.generic") {
        let mut p = Profile::flat(gen::types_api::ALL_LEAVES);
        p.dict = true;
        p.strukt = true;
        p.list = true;
        p.large_list = true;
        p.fsl = true;
        p.map = true;
        p.max_depth = 2;
        p
    } else {
        Profile::flat(&specialised)
    };
    p.max_cols = 3;
    // concat may legitimately fail with 'Dictionary key bigger than the key type' for 8-bit keys
    p.small_dict_keys = false;
    p.max_str_len = 20;
    p
}

fn make_filter(ctx: &Ctx, n: usize) -> (BooleanArray, Vec<bool>) {
    // selectivity classes: none, all, sparse (<= 1/16), dense, run-structured
    let class = ctx.draw(6, "filter.class");
    let mut sel = vec![false; n];
    match class {
        0 => {
            // sparse
            let k = if n >= 16 { 1 + ctx.below((n / 16).max(1), "filter.k") } else { ctx.below(2, "filter.k") };
            for _ in 0..k.min(n) {
                let i = ctx.below(n.max(1), "filter.i");
                if n > 0 {
                    sel[i] = true;
                }
            }
        }
        1 => {}
        2 => sel.iter_mut().for_each(|b| *b = true),
        3 => sel.iter_mut().for_each(|b| *b = ctx.chance(13, 16, "filter.dense")),
        4 => {
            // runs
            let mut i = 0;
            let mut on = ctx.chance(1, 2, "filter.run0");
            while i < n {
                let l = 1 + ctx.below(n.min(40), "filter.runlen");
                for b in sel.iter_mut().skip(i).take(l) {
                    *b = on;
                }
                i += l;
                on = !on;
            }
        }
        _ => sel.iter_mut().for_each(|b| *b = ctx.chance(1, 2, "filter.half")),
    }
    ctx.shape("filter.class", class, sel.iter().filter(|b| **b).count() as u64);
    // nulls in the filter: a null slot is "not selected" whatever the value bit says
    let with_nulls = ctx.chance(1, 3, "filter.nulls");
    let mut values = sel.clone();
    let mut valid = vec![true; n];
    if with_nulls {
        for i in 0..n {
            if ctx.chance(1, 5, "filter.null") {
                valid[i] = false;
                values[i] = ctx.chance(1, 2, "filter.nullbit");
                sel[i] = false;
            }
        }
    }
    let mut arr = BooleanArray::new(values.clone().into(), if with_nulls { Some(NullBuffer::from(valid.clone())) } else { None });
    if ctx.chance(1, 4, "filter.sliced") && n > 0 {
        // realise the filter as a slice of a longer one
        let pre = 1 + ctx.below(9, "filter.pre");
        let mut v2 = vec![true; pre];
        v2.extend(values.iter());
        let mut n2 = vec![true; pre];
        n2.extend(valid.iter());
        let big = BooleanArray::new(v2.into(), if with_nulls { Some(NullBuffer::from(n2)) } else { None });
        arr = big.slice(pre, n);
    }
    (arr, sel)
}

fn make_indices(ctx: &Ctx, n: usize, allow_null: bool) -> (ArrayRef, Vec<Option<usize>>) {
    let k = if n == 0 { 0 } else { ctx.size(2 * n + 2, "idx.len") };
    let mut idx: Vec<Option<usize>> = Vec::with_capacity(k);
    for _ in 0..k {
        if allow_null && ctx.chance(1, 8, "idx.null") {
            idx.push(None);
        } else {
            idx.push(Some(ctx.below(n, "idx.v")));
        }
    }
    let max = n.saturating_sub(1);
    macro_rules! mk {
        ($t:ty, $n:ty) => {
            Arc::new(PrimitiveArray::<$t>::from_iter(idx.iter().map(|i| i.map(|i| i as $n)))) as ArrayRef
        };
    }
    let kinds: Vec<u8> = (0..8u8).filter(|k| match k { 0 => max <= 127, 1 => max <= 255, 2 => max <= 32767, _ => true }).collect();
    let arr = match *ctx.pick(&kinds, "idx.type") {
        0 => mk!(Int8Type, i8),
        1 => mk!(UInt8Type, u8),
        2 => mk!(Int16Type, i16),
        3 => mk!(UInt16Type, u16),
        4 => mk!(Int32Type, i32),
        5 => mk!(UInt32Type, u32),
        6 => mk!(Int64Type, i64),
        _ => mk!(UInt64Type, u64),
    };
    (arr, idx)
}

fn null_row(schema: &Schema) -> Row {
    schema.fields().iter().map(|_| V::Null).collect()
}

fn check_observers(ctx: &Ctx, c: &BatchCoalescer, m: &Model, drained_rows: usize, undrained_known: bool) -> R {
    if !m.bypass_seen {
        if c.get_buffered_rows() != m.pending.len() {
            bail_v!(ctx, "observer_mismatch", "select.coalesce/buffered_rows", "get_buffered_rows()={} model={}", c.get_buffered_rows(), m.pending.len());
        }
        if c.has_completed_batch() != !m.completed.is_empty() {
            bail_v!(ctx, "observer_mismatch", "select.coalesce/has_completed_batch", "has_completed_batch()={} model has {} completed", c.has_completed_batch(), m.completed.len());
        }
        if c.is_empty() != (m.pending.is_empty() && m.completed.is_empty()) {
            bail_v!(ctx, "observer_mismatch", "select.coalesce/is_empty", "is_empty()={} model pending={} completed={}", c.is_empty(), m.pending.len(), m.completed.len());
        }
    } else if undrained_known && !c.has_completed_batch() {
        // conservation at a quiescent point: everything pushed is either drained or still buffered
        let total = m.emitted_or_buffered;
        if c.get_buffered_rows() + drained_rows != total {
            bail_v!(ctx, "conservation", "select.coalesce/buffered_rows", "buffered {} + drained {} != pushed {}", c.get_buffered_rows(), drained_rows, total);
        }
    }
    Ok(())
}

/// Flattened row sequence the model still owes the consumer.
struct Owed {
    rows: VecDeque<Row>,
}

fn drain_one(ctx: &Ctx, c: &mut BatchCoalescer, m: &mut Model, owed: &mut Owed, schema: &SchemaRef, drained: &mut usize, after_finish_only_remainder: bool) -> R<bool> {
    let Some(b) = c.next_completed_batch() else {
        if !m.bypass_seen && !m.completed.is_empty() {
            bail_v!(ctx, "lost_rows", "select.coalesce/next_completed_batch", "model has a completed batch of {} rows, coalescer returned None", m.completed[0].0.len());
        }
        return Ok(false);
    };
    let _ = after_finish_only_remainder;
    if b.schema() != *schema {
        bail_v!(ctx, "wrong_schema", "select.coalesce/schema", "emitted batch schema differs from the coalescer schema");
    }
    if let Err(e) = validate_batch(&b) {
        bail_v!(ctx, "invalid_array", "select.coalesce/validate", "emitted batch invalid: {e}");
    }
    let got = rows_of(&b);
    *drained += got.len();
    ctx.ev("drain", got.len() as u64, 0);
    if !m.bypass_seen {
        let Some((want, exact)) = m.completed.pop_front() else {
            bail_v!(ctx, "extra_rows", "select.coalesce/next_completed_batch", "coalescer emitted a batch of {} rows the model does not expect", got.len());
        };
        if exact && got.len() != m.target {
            bail_v!(ctx, "wrong_batch_size", "select.coalesce/target_size", "batch of {} rows, target {}", got.len(), m.target);
        }
        if got.len() != want.len() {
            bail_v!(ctx, "wrong_batch_size", "select.coalesce/batch_boundary", "batch of {} rows, model expects {} (target {})", got.len(), want.len(), m.target);
        }
        if let Some(d) = diff_rows(&want, &got) {
            bail_v!(ctx, "wrong_rows", "select.coalesce/rows", "{d}");
        }
        for _ in 0..got.len() {
            owed.rows.pop_front();
        }
    } else {
        if got.is_empty() {
            bail_v!(ctx, "wrong_batch_size", "select.coalesce/empty_batch", "an empty batch was emitted");
        }
        for (i, r) in got.iter().enumerate() {
            match owed.rows.pop_front() {
                Some(w) if &w == r => {}
                Some(w) => {
                    let d = diff_rows(&[w], &[r.clone()]).unwrap_or_default();
                    bail_v!(ctx, "wrong_rows", "select.coalesce/rows", "row {i} of drained batch: {d}");
                }
                None => bail_v!(ctx, "extra_rows", "select.coalesce/rows", "coalescer emitted more rows than were pushed"),
            }
        }
    }
    Ok(true)
}

fn history(ctx: &Ctx) -> R {
    simcore::runner::set_component("select.coalesce");
    let p = profile(ctx);
    let gs = gen_schema(ctx, &p);
    let has_union_or_null = gs.fields().iter().any(|f| !f.is_nullable());
    // first column is a unique row id so that a lost / duplicated / reordered row is identified
    let mut fields = vec![Field::new("rid", DataType::Int64, true)];
    fields.extend(gs.fields().iter().map(|f| f.as_ref().clone()));
    let schema: SchemaRef = Arc::new(Schema::new(fields));
    let target = match ctx.draw(8, "target") {
        0 => 1,
        1 => 2,
        2 => 3,
        3 => 8192,
        4 => 64,
        _ => 1 + ctx.below(64, "target.n"),
    };
    let mut c = BatchCoalescer::new(schema.clone(), target);
    let mut m = Model { target, pending: vec![], completed: VecDeque::new(), bypass_seen: false, emitted_or_buffered: 0 };
    let mut owed = Owed { rows: VecDeque::new() };
    // bypass limits only in a quarter of the histories: elsewhere batch boundaries are checked exactly
    let bypass_allowed = ctx.chance(1, 4, "limit.allowed");
    if bypass_allowed && ctx.chance(1, 2, "limit.initial") {
        let l = 1 + ctx.below(2 * target.min(200), "limit.v");
        c = c.with_biggest_coalesce_batch_size(Some(l));
        m.bypass_seen = true;
        ctx.shape("limit", l as u64, 0);
    }
    ctx.note("target", serde_json::json!(target));
    ctx.note("schema", serde_json::json!(gen::schema_sig(&schema, false)));
    let nops = 1 + ctx.below(30, "ops");
    let mut next_rid: i128 = 0;
    let mut drained = 0usize;
    let mut ops_log: Vec<String> = Vec::new();
    for _ in 0..nops {
        ctx.step();
        let mut op = ctx.draw(10, "op");
        if op == 7 && !bypass_allowed {
            op = 8;
        }
        match op {
            0..=5 => {
                // producer pushes a batch
                let rows = match ctx.draw(6, "rows") {
                    0 => 0,
                    1 => ctx.below(4, "rows.n"),
                    2 => ctx.below(300, "rows.n"),
                    3 => 16 + ctx.below(100, "rows.n"),
                    _ => ctx.below(40, "rows.n"),
                };
                let mut lb: LBatch = gen_lbatch(ctx, &gs, rows, &p);
                let rid: Vec<V> = (0..rows).map(|i| V::Int(next_rid + i as i128)).collect();
                next_rid += rows as i128;
                lb.cols.insert(0, rid);
                let batch = realise(ctx, &schema, &lb, true);
                let all_rows = lb.to_rows();
                match op {
                    0..=1 => {
                        ops_log.push(format!("push({rows})"));
                        ctx.shape("op.push", rows as u64, 0);
                        m.push(all_rows.clone());
                        owed.rows.extend(all_rows);
                        if let Err(e) = c.push_batch(batch) {
                            bail_v!(ctx, "unexpected_error", "select.coalesce/push_batch", "push_batch failed: {e}");
                        }
                    }
                    2..=4 => {
                        let (f, sel) = make_filter(ctx, rows);
                        let picked: Vec<Row> = all_rows.iter().zip(&sel).filter(|(_, s)| **s).map(|(r, _)| r.clone()).collect();
                        ops_log.push(format!("push_filter({rows}->{})", picked.len()));
                        ctx.shape("op.push_filter", rows as u64, picked.len() as u64);
                        // which path the public rule predicts (reach probe)
                        let all_special = schema.fields().iter().all(|f| f.data_type().is_primitive() || matches!(f.data_type(), DataType::Utf8View | DataType::BinaryView));
                        if !picked.is_empty() && picked.len() < rows {
                            if all_special && picked.len() <= rows / 16 && picked.len() <= target - c.get_buffered_rows().min(target) && !m.bypass_seen {
                                ctx.probe("coalesce.sparse_copy");
                            } else {
                                ctx.probe("coalesce.materialised_filter");
                            }
                        }
                        m.push(picked.clone());
                        owed.rows.extend(picked);
                        if let Err(e) = c.push_batch_with_filter(batch, &f) {
                            bail_v!(ctx, "unexpected_error", "select.coalesce/push_batch_with_filter", "push_batch_with_filter failed: {e}");
                        }
                    }
                    _ => {
                        let allow_null = !has_union_or_null && ctx.chance(1, 2, "idx.allow_null");
                        let (idx, logical) = make_indices(ctx, rows, allow_null);
                        let nr = null_row(&schema);
                        let picked: Vec<Row> = logical.iter().map(|i| i.map(|i| all_rows[i].clone()).unwrap_or_else(|| nr.clone())).collect();
                        ops_log.push(format!("push_indices({rows}->{})", picked.len()));
                        ctx.shape("op.push_indices", rows as u64, picked.len() as u64);
                        m.push(picked.clone());
                        owed.rows.extend(picked);
                        if let Err(e) = c.push_batch_with_indices(batch, idx.as_ref()) {
                            bail_v!(ctx, "unexpected_error", "select.coalesce/push_batch_with_indices", "push_batch_with_indices failed: {e}");
                        }
                    }
                }
                if m.bypass_seen {
                    // the model's batch boundaries are meaningless under bypass; keep only the sequence
                    m.completed.clear();
                    m.pending.clear();
                }
            }
            6 => {
                ops_log.push("finish".into());
                ctx.shape("op.finish", 0, 0);
                m.finish();
                if let Err(e) = c.finish_buffered_batch() {
                    bail_v!(ctx, "unexpected_error", "select.coalesce/finish_buffered_batch", "finish_buffered_batch failed: {e}");
                }
                if c.get_buffered_rows() != 0 {
                    bail_v!(ctx, "observer_mismatch", "select.coalesce/buffered_rows_after_finish", "{} rows still buffered after finish", c.get_buffered_rows());
                }
            }
            7 => {
                let l = if ctx.chance(1, 3, "limit.none") { None } else { Some(1 + ctx.below(2 * target.min(200), "limit.v")) };
                ops_log.push(format!("set_limit({l:?})"));
                ctx.shape("op.set_limit", l.unwrap_or(0) as u64, 0);
                if l.is_some() && !m.bypass_seen {
                    m.bypass_seen = true;
                    m.completed.clear();
                    m.pending.clear();
                }
                c.set_biggest_coalesce_batch_size(l);
            }
            _ => {
                // consumer drains 0..k batches
                let k = ctx.below(4, "drain.k");
                ops_log.push(format!("drain({k})"));
                ctx.shape("op.drain", k as u64, 0);
                for _ in 0..k {
                    if !drain_one(ctx, &mut c, &mut m, &mut owed, &schema, &mut drained, false)? {
                        break;
                    }
                }
            }
        }
        check_observers(ctx, &c, &m, drained, false)?;
    }
    // end of input: finish, drain everything, check conservation and ordering
    m.finish();
    if let Err(e) = c.finish_buffered_batch() {
        bail_v!(ctx, "unexpected_error", "select.coalesce/finish_buffered_batch", "final finish failed: {e}");
    }
    while drain_one(ctx, &mut c, &mut m, &mut owed, &schema, &mut drained, true)? {}
    if !owed.rows.is_empty() {
        bail_v!(ctx, "lost_rows", "select.coalesce/final", "{} selected rows were never emitted (first rid {:?})", owed.rows.len(), owed.rows[0][0]);
    }
    if !c.is_empty() || c.get_buffered_rows() != 0 {
        bail_v!(ctx, "observer_mismatch", "select.coalesce/final_is_empty", "coalescer not empty after final drain");
    }
    if m.bypass_seen {
        ctx.probe("coalesce.bypass_history");
    }
    ctx.nontrivial();
    ctx.note("ops", serde_json::json!(ops_log));
    ctx.count("rows_pushed", m.emitted_or_buffered as u64);
    Ok(())
}

// ---------------------------------------------------------------------------------------------
// Operator pipeline: a history of selection kernels over a pool of arrays of one generated type, each
// result checked against the row-level model (the layouts one kernel produces are the next one's input)
// ---------------------------------------------------------------------------------------------

fn pipeline(ctx: &Ctx) -> R {
    simcore::runner::set_component("select.pipeline");
    let mut p = Profile::flat(gen::types_api::ALL_LEAVES);
    p.leaves.retain(|l| *l != Leaf::Null);
    p.dict = true;
    p.strukt = true;
    p.list = true;
    p.large_list = true;
    p.list_view = true;
    p.fsl = true;
    p.map = true;
    p.max_depth = 2;
    p.small_dict_keys = false;
    p.max_str_len = 14;
    p.null_rate = *ctx.pick(&[3u64, 0, 8], "pipe.null_rate");
    let dt = gen::types_api::gen_type(ctx, &p, 0);
    ctx.note("type", serde_json::json!(gen::type_sig(&dt, false)));
    // zero-width fixed-size types lose their length in several kernels (known finding): they get a component of
    // their own so that the listed entry covers exactly them
    fn zero_width(dt: &DataType) -> bool {
        match dt {
            DataType::FixedSizeBinary(0) | DataType::FixedSizeList(_, 0) => true,
            DataType::List(f) | DataType::LargeList(f) | DataType::FixedSizeList(f, _) | DataType::Map(f, _) => zero_width(f.data_type()),
            DataType::Struct(fs) => fs.iter().any(|f| zero_width(f.data_type())),
            DataType::Dictionary(_, v) => zero_width(v),
            _ => false,
        }
    }
    let comp = if zero_width(&dt) { "select.zero_width" } else { "select" };
    simcore::runner::set_component(&format!("{comp}.pipeline"));
    let mut pool: Vec<(ArrayRef, Vec<V>)> = Vec::new();
    let fresh = |ctx: &Ctx| -> (ArrayRef, Vec<V>) {
        let n = ctx.size(40, "pipe.rows");
        let vals: Vec<V> = (0..n).map(|_| gen::types_api::gen_value(ctx, &dt, true, &p, 0)).collect();
        (simcore::runner::harness(|| gen::build(ctx, &dt, &vals, true)), vals)
    };
    pool.push(fresh(ctx));
    ctx.nontrivial();
    let steps = 3 + ctx.below(10, "pipe.steps");
    for _ in 0..steps {
        ctx.step();
        let pick = |ctx: &Ctx, pool: &Vec<(ArrayRef, Vec<V>)>| ctx.below(pool.len(), "pipe.pick");
        let op = ctx.draw(10, "pipe.op");
        let name;
        let (got, want): (ArrayRef, Vec<V>) = match op {
            0 => {
                name = "new";
                fresh(ctx)
            }
            1 => {
                name = "slice";
                let (a, v) = &pool[pick(ctx, &pool)];
                let o = ctx.below(v.len() + 1, "pipe.slice_off");
                let l = ctx.below(v.len() - o + 1, "pipe.slice_len");
                (a.slice(o, l), v[o..o + l].to_vec())
            }
            2 => {
                name = "filter";
                let (a, v) = &pool[pick(ctx, &pool)];
                let (f, sel) = make_filter(ctx, v.len());
                let r = match arrow_select::filter::filter(a.as_ref(), &f) {
                    Ok(r) => r,
                    Err(e) => bail_v!(ctx, "kernel_error", &format!("{comp}.filter/error"), "filter failed on {}: {e}", gen::type_sig(&dt, false)),
                };
                (r, v.iter().zip(&sel).filter(|(_, s)| **s).map(|(x, _)| x.clone()).collect())
            }
            3 => {
                name = "take";
                let (a, v) = &pool[pick(ctx, &pool)];
                let (idx, model) = make_indices(ctx, v.len(), true);
                let r = match arrow_select::take::take(a.as_ref(), idx.as_ref(), None) {
                    Ok(r) => r,
                    Err(e) => bail_v!(ctx, "kernel_error", &format!("{comp}.take/error"), "take failed on {}: {e}", gen::type_sig(&dt, false)),
                };
                (r, model.iter().map(|i| i.map(|i| v[i].clone()).unwrap_or(V::Null)).collect())
            }
            4 => {
                name = "concat";
                let k = 1 + ctx.below(3, "pipe.concat_n");
                let parts: Vec<usize> = (0..k).map(|_| pick(ctx, &pool)).collect();
                let arrs: Vec<&dyn Array> = parts.iter().map(|i| pool[*i].0.as_ref()).collect();
                let r = match arrow_select::concat::concat(&arrs) {
                    Ok(r) => r,
                    Err(e) => bail_v!(ctx, "kernel_error", &format!("{comp}.concat/error"), "concat failed on {}: {e}", gen::type_sig(&dt, false)),
                };
                (r, parts.iter().flat_map(|i| pool[*i].1.iter().cloned()).collect())
            }
            5 | 6 => {
                name = "interleave";
                let k = 1 + ctx.below(3, "pipe.il_n");
                let parts: Vec<usize> = (0..k).map(|_| pick(ctx, &pool)).collect();
                let arrs: Vec<&dyn Array> = parts.iter().map(|i| pool[*i].0.as_ref()).collect();
                let candidates: Vec<usize> = (0..k).filter(|j| !pool[parts[*j]].1.is_empty()).collect();
                let n = if candidates.is_empty() { 0 } else { ctx.size(50, "pipe.il_len") };
                let idx: Vec<(usize, usize)> = (0..n)
                    .map(|_| {
                        let j = candidates[ctx.below(candidates.len(), "pipe.il_arr")];
                        (j, ctx.below(pool[parts[j]].1.len(), "pipe.il_row"))
                    })
                    .collect();
                let r = match arrow_select::interleave::interleave(&arrs, &idx) {
                    Ok(r) => r,
                    Err(e) => bail_v!(ctx, "kernel_error", &format!("{comp}.interleave/error"), "interleave failed on {}: {e}", gen::type_sig(&dt, false)),
                };
                (r, idx.iter().map(|(j, r)| pool[parts[*j]].1[*r].clone()).collect())
            }
            7 => {
                name = "zip";
                // two inputs of equal length: an array and a slice / take of another brought to that length
                let (a, va) = pool[pick(ctx, &pool)].clone();
                let (b0, vb0) = pool[pick(ctx, &pool)].clone();
                if vb0.is_empty() && !va.is_empty() {
                    continue;
                }
                let idx: Vec<usize> = (0..va.len()).map(|i| i % vb0.len().max(1)).collect();
                let ia = UInt32Array::from(idx.iter().map(|i| *i as u32).collect::<Vec<_>>());
                let b = match arrow_select::take::take(b0.as_ref(), &ia, None) {
                    Ok(r) => r,
                    Err(e) => bail_v!(ctx, "kernel_error", &format!("{comp}.take/error"), "take failed on {}: {e}", gen::type_sig(&dt, false)),
                };
                let vb: Vec<V> = idx.iter().map(|i| vb0[*i].clone()).collect();
                let (mask, sel) = make_filter(ctx, va.len());
                // either side may be a scalar: one row of a pool array (so it keeps that array's buffers and offset)
                let scalar_of = |ctx: &Ctx, arr: &ArrayRef, vals: &Vec<V>, which: &'static str| -> Option<(ArrayRef, V)> {
                    if vals.is_empty() || !ctx.chance(1, 3, which) {
                        return None;
                    }
                    let i = ctx.below(vals.len(), "pipe.zip_scalar_row");
                    Some((arr.slice(i, 1), vals[i].clone()))
                };
                let sa = scalar_of(ctx, &a, &va, "pipe.zip_scalar_a");
                let sb = scalar_of(ctx, &b0, &vb0, "pipe.zip_scalar_b");
                let n = va.len();
                let (va, vb): (Vec<V>, Vec<V>) = (
                    match &sa { Some((_, v)) => vec![v.clone(); n], None => va },
                    match &sb { Some((_, v)) => vec![v.clone(); n], None => vb },
                );
                if sa.is_some() || sb.is_some() {
                    ctx.probe(if sa.is_some() && sb.is_some() { "pipeline.zip_two_scalars" } else { "pipeline.zip_one_scalar" });
                }
                let da: Box<dyn arrow_array::Datum> = match sa { Some((s, _)) => Box::new(arrow_array::Scalar::new(s)), None => Box::new(a) };
                let db: Box<dyn arrow_array::Datum> = match sb { Some((s, _)) => Box::new(arrow_array::Scalar::new(s)), None => Box::new(b) };
                let r = match arrow_select::zip::zip(&mask, da.as_ref(), db.as_ref()) {
                    Ok(r) => r,
                    Err(e) => bail_v!(ctx, "kernel_error", &format!("{comp}.zip/error"), "zip failed on {}: {e}", gen::type_sig(&dt, false)),
                };
                (r, (0..n).map(|i| if sel[i] { va[i].clone() } else { vb[i].clone() }).collect())
            }
            8 => {
                name = "nullif";
                let (a, v) = &pool[pick(ctx, &pool)];
                let (mask, sel) = make_filter(ctx, v.len());
                let r = match arrow_select::nullif::nullif(a.as_ref(), &mask) {
                    Ok(r) => r,
                    // nullif documents the types it does not support
                    Err(_) => continue,
                };
                (r, v.iter().zip(&sel).map(|(x, s)| if *s { V::Null } else { x.clone() }).collect())
            }
            _ => {
                name = "shift";
                let (a, v) = &pool[pick(ctx, &pool)];
                let n = v.len() as i64;
                let k = ctx.range(-n - 2, n + 2, "pipe.shift");
                let r = match arrow_select::window::shift(a.as_ref(), k) {
                    Ok(r) => r,
                    Err(e) => bail_v!(ctx, "kernel_error", &format!("{comp}.shift/error"), "shift failed on {}: {e}", gen::type_sig(&dt, false)),
                };
                let want: Vec<V> = (0..n).map(|i| { let j = i - k; if j >= 0 && j < n { v[j as usize].clone() } else { V::Null } }).collect();
                (r, want)
            }
        };
        ctx.shape(name, want.len() as u64, pool.len() as u64);
        ctx.probe(&format!("pipeline.{name}"));
        // the result against the row-level definition
        if got.data_type() != &dt {
            bail_v!(ctx, "wrong_type", &format!("{comp}.{name}/type"), "{name} returned {} for input type {}", gen::type_sig(got.data_type(), false), gen::type_sig(&dt, false));
        }
        if let Err(e) = got.to_data().validate_full() {
            bail_v!(ctx, "invalid_array", &format!("{comp}.{name}/validate"), "{name} returned an invalid array: {e}");
        }
        let rows = gen::extract(got.as_ref());
        if rows != want {
            let at = rows.iter().zip(&want).position(|(a, b)| a != b).unwrap_or(rows.len().min(want.len()));
            bail_v!(ctx, "wrong_rows", &format!("{comp}.{name}/rows"), "{name} on {}: {} rows, expected {}; first difference at row {at}: got {} expected {}", gen::type_sig(&dt, false), rows.len(), want.len(), rows.get(at).map(gen::show).unwrap_or_default(), want.get(at).map(gen::show).unwrap_or_default());
        }
        if pool.len() < 6 {
            pool.push((got, want));
        } else {
            let i = ctx.below(pool.len(), "pipe.replace");
            pool[i] = (got, want);
        }
    }
    Ok(())
}

fn main() {
    simcore::main_with(
        "C03",
        &[
            Scenario { name: "coalesce_history", runs_quick: 60_000, runs_thorough: 2_000_000, f: history },
            Scenario { name: "pipeline", runs_quick: 150_000, runs_thorough: 5_000_000, f: pipeline },
        ],
    );
}
