//! Avro object-container-file writer / reader and single-object-encoding writer over simulated seams.

use crate::text::bufread;
use crate::{Fmt, Post, ROut, Trunc, WOut, Workload};
use arrow_avro::compression::CompressionCodec;
use arrow_avro::writer::format::{AvroOcfFormat, AvroSoeFormat};
use arrow_avro::writer::WriterBuilder;
use gen::types_api::{Leaf, Profile, StrStyle};
use simcore::io::{Plan, SimSink};
use simcore::runner::set_component;
use simcore::Ctx;
use std::sync::{Arc, Mutex};

pub fn avro_profile(_ctx: &Ctx) -> Profile {
    let mut p = Profile::flat(&[Leaf::Bool, Leaf::I32, Leaf::I64, Leaf::F32, Leaf::F64, Leaf::Utf8, Leaf::Binary, Leaf::Date32]);
    p.str_style = StrStyle::Text;
    p.strukt = true;
    p.list = true;
    p.max_depth = 2;
    p.max_cols = 3;
    p
}

#[derive(Clone, Debug)]
pub struct AvroCfg {
    pub ocf: bool,
    pub codec: u8,
    pub batch_size: usize,
}

pub const FIXED_MARKER: [u8; 16] = [0xA5; 16];

pub struct AvroFmt {
    pub wl: Workload,
    pub cfg: AvroCfg,
    /// sync marker of the most recent OCF writer (random per writer; replaced in `normalise`)
    pub marker: Mutex<Option<[u8; 16]>>,
    /// offsets of the sync markers in the fault-free output (recorded by the first `normalise`)
    pub marker_at: Mutex<Option<Vec<usize>>>,
}

impl AvroFmt {
    pub fn new(wl: Workload, cfg: AvroCfg) -> Self {
        AvroFmt { wl, cfg, marker: Mutex::new(None), marker_at: Mutex::new(None) }
    }
    pub fn gen_cfg(ctx: &Ctx, ocf: bool) -> AvroCfg {
        AvroCfg { ocf, codec: ctx.draw(6, "avro.codec") as u8, batch_size: *ctx.pick(&[1024, 1, 2, 3, 7], "avro.batch") }
    }
    fn codec(&self) -> Option<CompressionCodec> {
        match self.cfg.codec {
            1 => Some(CompressionCodec::Deflate),
            2 => Some(CompressionCodec::Snappy),
            3 => Some(CompressionCodec::ZStandard),
            4 => Some(CompressionCodec::Bzip2),
            5 => Some(CompressionCodec::Xz),
            _ => None,
        }
    }
}

impl Fmt for AvroFmt {
    fn name(&self) -> &'static str {
        if self.cfg.ocf {
            "avro.ocf"
        } else {
            "avro.soe"
        }
    }
    fn deterministic(&self) -> bool {
        // the container embeds a random sync marker; it is normalised before any comparison
        true
    }
    fn trunc(&self) -> Trunc {
        if self.cfg.ocf {
            Trunc::PrefixThenErrOrEnd
        } else {
            Trunc::NotChecked
        }
    }
    fn write(&self, _ctx: &Ctx, sink: SimSink, post: Post) -> WOut {
        set_component("avro.writer");
        let schema = self.wl.schema.as_ref().clone();
        macro_rules! drive {
            ($w:expr) => {{
                let mut w = match $w {
                    Ok(w) => w,
                    Err(e) => return WOut::fail("build", e),
                };
                let mut out = WOut::ok();
                for b in &self.wl.batches {
                    if let Err(e) = w.write(b) {
                        out = WOut::fail("write", e);
                        break;
                    }
                }
                if out.api_ok {
                    if let Err(e) = w.finish() {
                        out = WOut::fail("finish", e);
                    }
                }
                match post {
                    Post::Drop if !out.api_ok => drop(w),
                    _ => {
                        let _sink = w.into_inner();
                    }
                }
                out
            }};
        }
        if self.cfg.ocf {
            let b = WriterBuilder::new(schema).with_compression(self.codec());
            let w = b.build::<_, AvroOcfFormat>(sink);
            if let Ok(w) = &w {
                *self.marker.lock().unwrap() = w.sync_marker().copied();
            }
            drive!(w)
        } else {
            drive!(WriterBuilder::new(schema).build::<_, AvroSoeFormat>(sink))
        }
    }
    fn normalise(&self, _ctx: &Ctx, mut bytes: Vec<u8>) -> Vec<u8> {
        if let Some(m) = *self.marker.lock().unwrap() {
            let mut found = Vec::new();
            let mut i = 0;
            while i + 16 <= bytes.len() {
                if bytes[i..i + 16] == m {
                    bytes[i..i + 16].copy_from_slice(&FIXED_MARKER);
                    found.push(i);
                    i += 16;
                } else {
                    i += 1;
                }
            }
            let mut at = self.marker_at.lock().unwrap();
            match at.as_ref() {
                // first call: the complete fault-free output
                None => *at = Some(found),
                // a marker cut short by the end of the data (failed sink, truncated file): only where the
                // fault-free output has one, so that a chance match of one or two bytes is not rewritten
                Some(pos) => {
                    let n = bytes.len();
                    for &p in pos {
                        if p < n && p + 16 > n && bytes[p..] == m[..n - p] {
                            bytes[p..].copy_from_slice(&FIXED_MARKER[..n - p]);
                        }
                    }
                }
            }
        }
        bytes
    }
    fn read(&self, ctx: &Ctx, data: Arc<Vec<u8>>, plan: Plan) -> ROut {
        set_component("avro.reader");
        let (br, st) = bufread(ctx, data, plan);
        let mut out = ROut::new(st);
        if !self.cfg.ocf {
            return out;
        }
        match arrow_avro::reader::ReaderBuilder::new().with_batch_size(self.cfg.batch_size).build(br) {
            Err(e) => out.err = Some(e.to_string()),
            Ok(mut r) => while out.take(r.next()) {},
        }
        out
    }
    fn describe(&self) -> serde_json::Value {
        serde_json::json!({"format": self.name(), "cfg": format!("{:?}", self.cfg)})
    }
}
