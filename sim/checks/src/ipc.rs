//! Arrow IPC file / stream writers and readers over simulated sinks and sources.

use crate::{Fmt, Post, ROut, Trunc, WOut, Workload};
use arrow_ipc::reader::{FileReader, StreamReader};
use arrow_ipc::writer::{DictionaryHandling, FileWriter, IpcWriteOptions, StreamWriter};
use arrow_ipc::{CompressionType, MetadataVersion};
use gen::types_api::{Leaf, Profile, ALL_LEAVES};
use simcore::io::{Plan, SimSink, SimSource};
use simcore::runner::set_component;
use simcore::Ctx;
use std::sync::Arc;

#[derive(Clone, Debug)]
pub struct IpcCfg {
    pub file: bool,
    pub alignment: usize,
    pub v4: bool,
    pub legacy: bool,
    pub compression: u8, // 0 none, 1 lz4, 2 zstd
    pub delta: bool,
    pub buffered_writer: bool,
    pub buffered_reader: bool,
}

impl IpcCfg {
    pub fn gen(ctx: &Ctx, file: bool) -> Self {
        let v4 = ctx.chance(1, 4, "ipc.v4");
        IpcCfg {
            file,
            alignment: *ctx.pick(&[64, 8, 16, 32], "ipc.align"),
            v4,
            legacy: v4 && ctx.chance(1, 3, "ipc.legacy"),
            compression: if v4 { 0 } else { ctx.draw(3, "ipc.codec") as u8 },
            delta: ctx.chance(1, 3, "ipc.delta"),
            buffered_writer: ctx.chance(1, 3, "ipc.bufw"),
            buffered_reader: ctx.chance(1, 3, "ipc.bufr"),
        }
    }
    pub fn options(&self) -> IpcWriteOptions {
        let mv = if self.v4 { MetadataVersion::V4 } else { MetadataVersion::V5 };
        let mut o = IpcWriteOptions::try_new(self.alignment, self.legacy, mv).expect("ipc options");
        o = match self.compression {
            1 => o.try_with_compression(Some(CompressionType::LZ4_FRAME)).expect("lz4"),
            2 => o.try_with_compression(Some(CompressionType::ZSTD)).expect("zstd"),
            _ => o,
        };
        o.with_dictionary_handling(if self.delta { DictionaryHandling::Delta } else { DictionaryHandling::Resend })
    }
}

/// Types the IPC format documents as supported (everything arrow has).
pub fn ipc_profile(ctx: &Ctx) -> Profile {
    let mut p = Profile::everything();
    p.leaves = ALL_LEAVES.to_vec();
    p.max_cols = 3;
    p.max_depth = 2;
    p.zero_cols = false;
    p.field_metadata = true;
    p.dict_values = vec![Leaf::Utf8, Leaf::I32, Leaf::Binary, Leaf::LargeUtf8];
    if ctx.chance(1, 2, "ipc.flat") {
        p.max_depth = 1;
    }
    p
}

pub struct IpcFmt {
    pub wl: Workload,
    pub cfg: IpcCfg,
}

macro_rules! step {
    ($call:expr, $e:expr) => {
        match $e {
            Ok(v) => v,
            Err(e) => return WOut::fail($call, e),
        }
    };
}

impl Fmt for IpcFmt {
    fn name(&self) -> &'static str {
        if self.cfg.file {
            "ipc.file"
        } else {
            "ipc.stream"
        }
    }
    fn trunc(&self) -> Trunc {
        if self.cfg.file {
            Trunc::Reject
        } else {
            Trunc::PrefixThenErrOrEnd
        }
    }

    fn write(&self, _ctx: &Ctx, sink: SimSink, post: Post) -> WOut {
        let opts = self.cfg.options();
        macro_rules! drive {
            ($w:expr, $unwrap:expr) => {{
                let mut w = $w;
                let mut out = WOut::ok();
                let mut acked = 0;
                for b in &self.wl.batches {
                    if let Err(e) = w.write(b) {
                        out = WOut::fail("write", e);
                        break;
                    }
                    acked += b.num_rows();
                }
                if out.api_ok {
                    if let Err(e) = w.finish() {
                        out = WOut::fail("finish", e);
                    }
                }
                out.acked_rows = acked;
                if out.failed_call == Some("write") && post == Post::IntoInner {
                    // the caller finishes the file / stream although a write failed
                    out.finish_ok_after_error = w.finish().is_ok();
                }
                match post {
                    Post::Drop if !out.api_ok => drop(w),
                    _ => {
                        // recovering the sink must not panic; an error here is an API error too
                        let r = w.into_inner();
                        match r {
                            Err(e) if out.api_ok => out = WOut::fail("into_inner", e),
                            Ok(inner) => {
                                #[allow(clippy::redundant_closure_call)]
                                if let Err(e) = ($unwrap)(inner) {
                                    if out.api_ok {
                                        out = WOut::fail("into_inner.flush", e);
                                    }
                                }
                            }
                            _ => {}
                        }
                    }
                }
                out
            }};
        }
        match (self.cfg.file, self.cfg.buffered_writer) {
            (true, false) => {
                set_component("ipc.file_writer");
                drive!(step!("try_new", FileWriter::try_new_with_options(sink, &self.wl.schema, opts)), |_w: SimSink| Ok::<(), String>(()))
            }
            (true, true) => {
                set_component("ipc.file_writer");
                let bw = std::io::BufWriter::with_capacity(256, sink);
                drive!(step!("try_new", FileWriter::try_new_with_options(bw, &self.wl.schema, opts)), |w: std::io::BufWriter<SimSink>| w.into_inner().map(|_| ()).map_err(|e| e.to_string()))
            }
            (false, false) => {
                set_component("ipc.stream_writer");
                drive!(step!("try_new", StreamWriter::try_new_with_options(sink, &self.wl.schema, opts)), |_w: SimSink| Ok::<(), String>(()))
            }
            (false, true) => {
                set_component("ipc.stream_writer");
                let bw = std::io::BufWriter::with_capacity(256, sink);
                drive!(step!("try_new", StreamWriter::try_new_with_options(bw, &self.wl.schema, opts)), |w: std::io::BufWriter<SimSink>| w.into_inner().map(|_| ()).map_err(|e| e.to_string()))
            }
        }
    }

    fn read(&self, ctx: &Ctx, data: Arc<Vec<u8>>, plan: Plan) -> ROut {
        let src = SimSource::new(ctx, data, plan);
        let mut out = ROut::new(src.st.clone());
        macro_rules! iterate {
            ($r:expr) => {
                match $r {
                    Err(e) => out.err = Some(e.to_string()),
                    Ok(mut r) => {
                        out.schema_sig = Some(gen::schema_sig(&r.schema(), false));
                        while out.take(r.next()) {}
                    }
                }
            };
        }
        if self.cfg.file {
            set_component("ipc.file_reader");
            if self.cfg.buffered_reader {
                iterate!(FileReader::try_new_buffered(src, None));
            } else {
                iterate!(FileReader::try_new(src, None));
            }
        } else {
            set_component("ipc.stream_reader");
            if self.cfg.buffered_reader {
                iterate!(StreamReader::try_new_buffered(src, None));
            } else {
                iterate!(StreamReader::try_new(src, None));
            }
        }
        out
    }

    fn describe(&self) -> serde_json::Value {
        serde_json::json!({"format": self.name(), "cfg": format!("{:?}", self.cfg)})
    }
}
