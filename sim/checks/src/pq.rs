//! Parquet ArrowWriter / sync reader over simulated sinks and a simulated `ChunkReader`.

use crate::{Fmt, Post, ROut, Trunc, WOut, Workload};
use bytes::Bytes;
use gen::types_api::{Leaf, Profile};
use parquet::arrow::arrow_reader::ParquetRecordBatchReaderBuilder;
use parquet::arrow::ArrowWriter;
use parquet::basic::{BrotliLevel, Compression, GzipLevel, ZstdLevel};
use parquet::errors::ParquetError;
use parquet::file::properties::{EnabledStatistics, WriterProperties, WriterVersion};
use parquet::file::reader::{ChunkReader, Length};
use simcore::io::{Plan, SimSink, SimSource};
use simcore::runner::set_component;
use simcore::Ctx;
use std::sync::Arc;

pub fn pq_profile_basic(_ctx: &Ctx) -> Profile {
    let mut p = Profile::flat(&[
        Leaf::Bool, Leaf::I8, Leaf::I16, Leaf::I32, Leaf::I64, Leaf::U8, Leaf::U16, Leaf::U32, Leaf::U64, Leaf::F32, Leaf::F64, Leaf::Utf8, Leaf::LargeUtf8, Leaf::Binary, Leaf::Date32, Leaf::Ts,
        Leaf::Dec128, Leaf::Fsb, Leaf::Utf8View, Leaf::BinaryView,
    ]);
    p.strukt = true;
    p.list = true;
    p.dict = true;
    p.max_depth = 2;
    p.max_cols = 3;
    p
}

#[derive(Clone, Debug)]
pub struct PqCfg {
    pub v2: bool,
    pub dict: bool,
    pub dict_page_limit: usize,
    pub data_page_limit: usize,
    pub page_rows: usize,
    pub write_batch: usize,
    pub rg_rows: usize,
    pub codec: u8,
    pub stats: u8,
    pub bloom: bool,
    pub offset_index_disabled: bool,
    pub reader_batch: usize,
    pub page_index: bool,
    /// 0: writer defaults; otherwise a per-column non-default encoding is chosen (by column index and this salt)
    /// for top-level primitive / byte-array columns
    pub enc_salt: u8,
}

impl PqCfg {
    pub fn gen(ctx: &Ctx) -> Self {
        PqCfg {
            v2: ctx.chance(1, 2, "pq.v2"),
            dict: !ctx.chance(1, 3, "pq.nodict"),
            dict_page_limit: *ctx.pick(&[1 << 20, 16, 64, 256], "pq.dictlimit"),
            data_page_limit: *ctx.pick(&[1 << 20, 32, 128, 1024], "pq.pagelimit"),
            page_rows: *ctx.pick(&[20000, 1, 3, 10, 50], "pq.pagerows"),
            write_batch: *ctx.pick(&[1024, 1, 2, 7, 32], "pq.writebatch"),
            rg_rows: *ctx.pick(&[1 << 20, 1, 5, 17, 64], "pq.rgrows"),
            codec: ctx.draw(7, "pq.codec") as u8,
            stats: ctx.draw(3, "pq.stats") as u8,
            bloom: ctx.chance(1, 4, "pq.bloom"),
            offset_index_disabled: ctx.chance(1, 6, "pq.nooffsetindex"),
            reader_batch: *ctx.pick(&[1024, 1, 2, 3, 7, 100], "pq.readbatch"),
            page_index: ctx.chance(1, 3, "pq.pageindex"),
            enc_salt: if ctx.chance(1, 2, "pq.encodings") { 1 + ctx.draw(200, "pq.enc_salt") as u8 } else { 0 },
        }
    }
    /// Writer properties with per-column encodings for the top-level columns of `schema`.
    pub fn props_for(&self, schema: &arrow_schema::Schema) -> WriterProperties {
        use arrow_schema::DataType as D;
        use parquet::basic::Encoding as E;
        use parquet::schema::types::ColumnPath;
        if self.enc_salt == 0 {
            return self.props();
        }
        let mut b = self.props().into_builder();
        for (i, f) in schema.fields().iter().enumerate() {
            let pick = (self.enc_salt as usize + i * 7) % 4;
            let enc = match f.data_type() {
                D::Int32 | D::Int64 | D::Date32 | D::Timestamp(_, _) | D::UInt32 | D::UInt64 | D::Int8 | D::Int16 | D::UInt8 | D::UInt16 => [Some(E::DELTA_BINARY_PACKED), Some(E::PLAIN), Some(E::BYTE_STREAM_SPLIT), None][pick],
                D::Float32 | D::Float64 => [Some(E::BYTE_STREAM_SPLIT), Some(E::PLAIN), None, Some(E::BYTE_STREAM_SPLIT)][pick],
                D::Utf8 | D::LargeUtf8 | D::Binary | D::LargeBinary | D::Utf8View | D::BinaryView => [Some(E::DELTA_LENGTH_BYTE_ARRAY), Some(E::DELTA_BYTE_ARRAY), Some(E::PLAIN), None][pick],
                // (a Decimal128 of small precision is stored as INT32 / INT64, for which DELTA_BYTE_ARRAY is not a legal encoding)
                D::FixedSizeBinary(_) => [Some(E::BYTE_STREAM_SPLIT), Some(E::PLAIN), Some(E::DELTA_BYTE_ARRAY), None][pick],
                D::Decimal128(p, _) if *p > 18 => [Some(E::BYTE_STREAM_SPLIT), Some(E::PLAIN), Some(E::DELTA_BYTE_ARRAY), None][pick],
                D::Decimal128(_, _) => [Some(E::BYTE_STREAM_SPLIT), Some(E::PLAIN), Some(E::DELTA_BINARY_PACKED), None][pick],
                D::Boolean => [Some(E::RLE), Some(E::PLAIN), None, Some(E::RLE)][pick],
                _ => None,
            };
            if let Some(e) = enc {
                let path = ColumnPath::from(f.name().as_str());
                b = b.set_column_dictionary_enabled(path.clone(), false).set_column_encoding(path, e);
            }
        }
        b.build()
    }
    pub fn props(&self) -> WriterProperties {
        let codec = match self.codec {
            1 => Compression::SNAPPY,
            2 => Compression::LZ4_RAW,
            3 => Compression::ZSTD(ZstdLevel::default()),
            4 => Compression::GZIP(GzipLevel::default()),
            5 => Compression::BROTLI(BrotliLevel::default()),
            6 => Compression::LZ4,
            _ => Compression::UNCOMPRESSED,
        };
        let stats = match self.stats {
            0 => EnabledStatistics::Page,
            1 => EnabledStatistics::Chunk,
            _ => EnabledStatistics::None,
        };
        WriterProperties::builder()
            .set_writer_version(if self.v2 { WriterVersion::PARQUET_2_0 } else { WriterVersion::PARQUET_1_0 })
            .set_dictionary_enabled(self.dict)
            .set_dictionary_page_size_limit(self.dict_page_limit)
            .set_data_page_size_limit(self.data_page_limit)
            .set_data_page_row_count_limit(self.page_rows)
            .set_write_batch_size(self.write_batch)
            .set_max_row_group_row_count(Some(self.rg_rows))
            .set_compression(codec)
            .set_statistics_enabled(stats)
            .set_bloom_filter_enabled(self.bloom)
            .set_offset_index_disabled(self.offset_index_disabled)
            .set_created_by("sim".to_string())
            .build()
    }
}

/// Simulated file for the sync reader: every `get_read` / `get_bytes` / `read` is a device call.
pub struct SimFile {
    src: SimSource,
}

impl SimFile {
    pub fn new(ctx: &Ctx, data: Arc<Vec<u8>>, plan: Plan) -> Self {
        SimFile { src: SimSource::new(ctx, data, plan) }
    }
    pub fn state(&self) -> Arc<std::sync::Mutex<simcore::io::SourceState>> {
        self.src.st.clone()
    }
}

impl Length for SimFile {
    fn len(&self) -> u64 {
        self.src.data.len() as u64
    }
}

impl ChunkReader for SimFile {
    type T = SimSource;
    fn get_read(&self, start: u64) -> parquet::errors::Result<SimSource> {
        if let Some(e) = self.src.gate() {
            return Err(ParquetError::External(Box::new(e)));
        }
        Ok(self.src.at(start))
    }
    fn get_bytes(&self, start: u64, length: usize) -> parquet::errors::Result<Bytes> {
        if let Some(e) = self.src.gate() {
            return Err(ParquetError::External(Box::new(e)));
        }
        let len = self.src.data.len();
        let s = start as usize;
        if s > len || length > len - s {
            return Err(ParquetError::EOF(format!("simulated file: range {s}+{length} beyond end {len}")));
        }
        Ok(Bytes::copy_from_slice(&self.src.data[s..s + length]))
    }
}

pub struct PqFmt {
    pub wl: Workload,
    pub cfg: PqCfg,
    /// explicit flush() after these batch indices
    pub flush_after: Vec<usize>,
}

impl Fmt for PqFmt {
    fn name(&self) -> &'static str {
        "parquet"
    }
    fn trunc(&self) -> Trunc {
        Trunc::Reject
    }
    fn write(&self, _ctx: &Ctx, sink: SimSink, post: Post) -> WOut {
        set_component("parquet.arrow_writer");
        let mut w = match ArrowWriter::try_new(sink, self.wl.schema.clone(), Some(self.cfg.props_for(&self.wl.schema))) {
            Ok(w) => w,
            Err(e) => return WOut::fail("try_new", e),
        };
        let mut out = WOut::ok();
        let mut acked = 0;
        for (i, b) in self.wl.batches.iter().enumerate() {
            if let Err(e) = w.write(b) {
                out = WOut::fail("write", e);
                break;
            }
            acked += b.num_rows();
            if self.flush_after.contains(&i) {
                if let Err(e) = w.flush() {
                    out = WOut::fail("flush", e);
                    break;
                }
            }
        }
        out.acked_rows = acked;
        if out.api_ok {
            match post {
                Post::Drop => {
                    if let Err(e) = w.close() {
                        out = WOut::fail("close", e);
                    }
                }
                // into_inner() writes the footer itself (it is an error after finish())
                Post::IntoInner => {
                    if let Err(e) = w.into_inner() {
                        out = WOut::fail("into_inner", e);
                    }
                }
            }
        } else {
            match post {
                Post::Drop => drop(w),
                // the caller finishes the file although a write / flush failed: that must not be reported as a success
                Post::IntoInner => out.finish_ok_after_error = w.into_inner().is_ok(),
            }
        }
        out
    }
    fn read(&self, ctx: &Ctx, data: Arc<Vec<u8>>, plan: Plan) -> ROut {
        set_component("parquet.sync_reader");
        let f = SimFile::new(ctx, data, plan);
        let mut out = ROut::new(f.state());
        let opts = parquet::arrow::arrow_reader::ArrowReaderOptions::new().with_page_index_policy(if self.cfg.page_index { parquet::file::metadata::PageIndexPolicy::Optional } else { parquet::file::metadata::PageIndexPolicy::Skip });
        match ParquetRecordBatchReaderBuilder::try_new_with_options(f, opts) {
            Err(e) => out.err = Some(e.to_string()),
            Ok(b) => match b.with_batch_size(self.cfg.reader_batch).build() {
                Err(e) => out.err = Some(e.to_string()),
                Ok(mut r) => while out.take(r.next()) {},
            },
        }
        out
    }
    fn describe(&self) -> serde_json::Value {
        serde_json::json!({"format": "parquet", "cfg": format!("{:?}", self.cfg), "flush_after": self.flush_after})
    }
}


// ---------------------------------------------------------------------------------------------
// The asynchronous Parquet writer and reader over the same simulated devices (C18, async seams)
// ---------------------------------------------------------------------------------------------

/// `AsyncArrowWriter` over a tokio `AsyncWrite` face of the sink and `ParquetRecordBatchStream` over an
/// `AsyncRead + AsyncSeek` face of the source, both driven by the manual executor with seeded `Pending`s.
pub struct PqAsyncFmt {
    pub inner: PqFmt,
    pub pending_rate: u64,
}

impl Fmt for PqAsyncFmt {
    fn name(&self) -> &'static str {
        "parquet.async"
    }
    fn trunc(&self) -> Trunc {
        Trunc::Reject
    }
    fn write(&self, ctx: &Ctx, sink: SimSink, post: Post) -> WOut {
        use parquet::arrow::AsyncArrowWriter;
        use simcore::aio::{Executor, Gate, SimAsyncSink};
        set_component("parquet.async_writer");
        let gate = Gate::new();
        let asink = SimAsyncSink::over(ctx, &gate, sink, self.pending_rate);
        let mut ex = Executor::new(ctx, &gate);
        let wl = &self.inner.wl;
        let flush_after = &self.inner.flush_after;
        let props = self.inner.cfg.props_for(&wl.schema);
        let fut = async move {
            let mut w = match AsyncArrowWriter::try_new(asink, wl.schema.clone(), Some(props)) {
                Ok(w) => w,
                Err(e) => return WOut::fail("try_new", e),
            };
            let mut acked = 0;
            for (i, b) in wl.batches.iter().enumerate() {
                if let Err(e) = w.write(b).await {
                    // the caller stops writing at the first error; half of the time it still closes the file
                    let mut out = WOut::fail("write", e);
                    out.acked_rows = acked;
                    if post == Post::IntoInner {
                        out.finish_ok_after_error = w.close().await.is_ok();
                    }
                    return out;
                }
                acked += b.num_rows();
                if flush_after.contains(&i) {
                    if let Err(e) = w.flush().await {
                        let mut out = WOut::fail("flush", e);
                        out.acked_rows = acked;
                        if post == Post::IntoInner {
                            out.finish_ok_after_error = w.close().await.is_ok();
                        }
                        return out;
                    }
                }
            }
            match w.close().await {
                Ok(_) => WOut::ok(),
                Err(e) => WOut::fail("close", e),
            }
        };
        match ex.block_on(fut, "parquet.async_writer") {
            Ok(w) => w,
            Err(v) => {
                let mut w = WOut::fail("executor", &v.detail);
                w.sim_violation = Some(v);
                w
            }
        }
    }
    fn read(&self, ctx: &Ctx, data: Arc<Vec<u8>>, plan: Plan) -> ROut {
        use futures::StreamExt;
        use parquet::arrow::async_reader::ParquetRecordBatchStreamBuilder;
        use simcore::aio::{Executor, Gate, SimAsyncSource};
        set_component("parquet.async_reader");
        let gate = Gate::new();
        let src = SimSource::new(ctx, data, plan);
        let mut out = ROut::new(src.st.clone());
        let asrc = SimAsyncSource::new(ctx, &gate, src, self.pending_rate);
        let mut ex = Executor::new(ctx, &gate);
        let opts = parquet::arrow::arrow_reader::ArrowReaderOptions::new().with_page_index_policy(if self.inner.cfg.page_index { parquet::file::metadata::PageIndexPolicy::Optional } else { parquet::file::metadata::PageIndexPolicy::Skip });
        let bs = self.inner.cfg.reader_batch;
        let res = ex.block_on(
            async {
                let b = match ParquetRecordBatchStreamBuilder::new_with_options(asrc, opts).await {
                    Ok(b) => b,
                    Err(e) => {
                        out.err = Some(e.to_string());
                        return;
                    }
                };
                let mut s = match b.with_batch_size(bs).build() {
                    Ok(s) => s,
                    Err(e) => {
                        out.err = Some(e.to_string());
                        return;
                    }
                };
                loop {
                    let item = s.next().await;
                    if !out.take(item) {
                        break;
                    }
                }
            },
            "parquet.async_reader",
        );
        if let Err(v) = res {
            out.sim_violation = Some(v);
        }
        out
    }
    fn describe(&self) -> serde_json::Value {
        serde_json::json!({"format": "parquet.async", "cfg": format!("{:?}", self.inner.cfg), "flush_after": self.inner.flush_after, "pending_rate": self.pending_rate})
    }
}
