//! CSV and JSON writers / readers over simulated sinks and `BufRead` sources.

use crate::{Fmt, Post, ROut, Trunc, WOut, Workload};
use gen::types_api::{Leaf, Profile, StrStyle};
use simcore::io::{ChunkedBufRead, Plan, SimSink, SimSource};
use simcore::runner::set_component;
use simcore::Ctx;
use std::sync::Arc;

pub fn csv_profile(_ctx: &Ctx) -> Profile {
    let mut p = Profile::flat(&[Leaf::Bool, Leaf::I8, Leaf::I16, Leaf::I32, Leaf::I64, Leaf::U8, Leaf::U16, Leaf::U32, Leaf::U64, Leaf::F32, Leaf::F64, Leaf::Utf8, Leaf::Date32, Leaf::Utf8View]);
    p.str_style = StrStyle::TextNoCtl;
    p.nan = false;
    p.extreme = false;
    p.max_cols = 4;
    p.all_nullable = true;
    p
}

pub fn json_profile(_ctx: &Ctx) -> Profile {
    let mut p = Profile::flat(&[Leaf::Bool, Leaf::I8, Leaf::I32, Leaf::I64, Leaf::U8, Leaf::U32, Leaf::F64, Leaf::Utf8, Leaf::LargeUtf8, Leaf::Date32, Leaf::Utf8View]);
    p.str_style = StrStyle::Text;
    p.nan = false;
    p.extreme = false;
    p.strukt = true;
    p.list = true;
    p.large_list = true;
    p.max_depth = 2;
    p.max_cols = 3;
    p
}

/// A `BufRead` over the simulated source: tape-chosen chunk lengths under benign plans, a fixed
/// stride otherwise (so that enumerated sweeps draw nothing from the tape).
pub fn bufread(ctx: &Ctx, data: Arc<Vec<u8>>, plan: Plan) -> (ChunkedBufRead, Arc<std::sync::Mutex<simcore::io::SourceState>>) {
    let benign = plan.benign_rate > 0;
    let len = data.len();
    let src = SimSource::new(ctx, data, plan);
    let st = src.st.clone();
    let cuts: Vec<usize> = if benign { vec![] } else { (1..=len / 97 + 1).map(|i| i * 97).collect() };
    (ChunkedBufRead::new(ctx, src, cuts, 64), st)
}

#[derive(Clone, Debug)]
pub struct CsvCfg {
    pub header: bool,
    pub delimiter: u8,
    pub batch_size: usize,
    pub crlf: bool,
    /// reader option: rows with fewer fields than the schema are padded with nulls
    pub truncated_rows: bool,
}

pub struct CsvFmt {
    pub wl: Workload,
    pub cfg: CsvCfg,
    /// recover the sink with `Writer::into_inner` (otherwise `RecordBatchWriter::close` / drop only)
    pub into_inner: bool,
}

impl CsvFmt {
    pub fn gen_cfg(ctx: &Ctx) -> CsvCfg {
        CsvCfg { header: ctx.chance(1, 2, "csv.header"), delimiter: *ctx.pick(&[b',', b';', b'\t', b'|'], "csv.delim"), batch_size: *ctx.pick(&[1024, 1, 2, 3, 7], "csv.batch"), crlf: ctx.chance(1, 3, "csv.crlf"), truncated_rows: ctx.chance(1, 3, "csv.truncated_rows") }
    }
    pub fn writer_builder(&self) -> arrow_csv::WriterBuilder {
        let mut b = arrow_csv::WriterBuilder::new().with_header(self.cfg.header).with_delimiter(self.cfg.delimiter);
        if self.cfg.crlf {
            b = b.with_line_terminator(arrow_csv::writer::Terminator::CRLF);
        }
        b
    }
    pub fn reader_builder(&self) -> arrow_csv::ReaderBuilder {
        arrow_csv::ReaderBuilder::new(self.wl.schema.clone()).with_header(self.cfg.header).with_delimiter(self.cfg.delimiter).with_batch_size(self.cfg.batch_size).with_truncated_rows(self.cfg.truncated_rows)
    }
}

impl Fmt for CsvFmt {
    fn name(&self) -> &'static str {
        if self.into_inner {
            "csv.into_inner"
        } else {
            "csv"
        }
    }
    fn trunc(&self) -> Trunc {
        Trunc::NotChecked
    }
    fn write(&self, _ctx: &Ctx, sink: SimSink, post: Post) -> WOut {
        set_component(if self.into_inner { "csv.into_inner.writer" } else { "csv.writer" });
        let mut w = self.writer_builder().build(sink);
        let mut out = WOut::ok();
        for b in &self.wl.batches {
            if let Err(e) = w.write(b) {
                out = WOut::fail("write", e);
                break;
            }
        }
        if self.into_inner {
            match post {
                Post::Drop if !out.api_ok => drop(w),
                _ => {
                    let _sink = w.into_inner();
                }
            }
        } else if out.api_ok {
            if let Err(e) = arrow_array::RecordBatchWriter::close(w) {
                out = WOut::fail("close", e);
            }
        } else {
            drop(w);
        }
        out
    }
    fn read(&self, ctx: &Ctx, data: Arc<Vec<u8>>, plan: Plan) -> ROut {
        set_component(if self.into_inner { "csv.into_inner.reader" } else { "csv.reader" });
        let (br, st) = bufread(ctx, data, plan);
        let mut out = ROut::new(st);
        match self.reader_builder().build_buffered(br) {
            Err(e) => out.err = Some(e.to_string()),
            Ok(mut r) => while out.take(r.next()) {},
        }
        out
    }
    fn describe(&self) -> serde_json::Value {
        serde_json::json!({"format": "csv", "cfg": format!("{:?}", self.cfg)})
    }
}

#[derive(Clone, Debug)]
pub struct JsonCfg {
    pub array: bool,
    pub explicit_nulls: bool,
    pub batch_size: usize,
}

pub struct JsonFmt {
    pub wl: Workload,
    pub cfg: JsonCfg,
}

impl JsonFmt {
    pub fn gen_cfg(ctx: &Ctx) -> JsonCfg {
        JsonCfg { array: ctx.chance(1, 2, "json.array"), explicit_nulls: ctx.chance(1, 2, "json.explicit_nulls"), batch_size: *ctx.pick(&[1024, 1, 2, 3, 7], "json.batch") }
    }
    pub fn reader_builder(&self) -> arrow_json::ReaderBuilder {
        arrow_json::ReaderBuilder::new(self.wl.schema.clone()).with_batch_size(self.cfg.batch_size).with_flatten(self.cfg.array)
    }
}

impl Fmt for JsonFmt {
    fn name(&self) -> &'static str {
        if self.cfg.array {
            "json.array"
        } else {
            "json.lines"
        }
    }
    fn trunc(&self) -> Trunc {
        Trunc::PrefixThenErrOrEnd
    }
    fn write(&self, _ctx: &Ctx, sink: SimSink, post: Post) -> WOut {
        set_component("json.writer");
        let builder = arrow_json::WriterBuilder::new().with_explicit_nulls(self.cfg.explicit_nulls);
        macro_rules! drive {
            ($w:expr) => {{
                let mut w = $w;
                let mut out = WOut::ok();
                for b in &self.wl.batches {
                    if let Err(e) = w.write(b) {
                        out = WOut::fail("write", e);
                        break;
                    }
                }
                if out.api_ok {
                    if let Err(e) = w.finish() {
                        out = WOut::fail("finish", e);
                    }
                }
                match post {
                    Post::Drop if !out.api_ok => drop(w),
                    _ => {
                        let _sink = w.into_inner();
                    }
                }
                out
            }};
        }
        if self.cfg.array {
            drive!(builder.build::<_, arrow_json::writer::JsonArray>(sink))
        } else {
            drive!(builder.build::<_, arrow_json::writer::LineDelimited>(sink))
        }
    }
    fn read(&self, ctx: &Ctx, data: Arc<Vec<u8>>, plan: Plan) -> ROut {
        set_component("json.reader");
        let (br, st) = bufread(ctx, data, plan);
        let mut out = ROut::new(st);
        match self.reader_builder().build(br) {
            Err(e) => out.err = Some(e.to_string()),
            Ok(mut r) => while out.take(r.next()) {},
        }
        out
    }
    fn describe(&self) -> serde_json::Value {
        serde_json::json!({"format": self.name(), "cfg": format!("{:?}", self.cfg)})
    }
}
