//! Simulated `PageStore` (the Parquet writer's spill seam): non-dense opaque keys, `put` / `take` fail at call k.

use bytes::Bytes;
use parquet::column::page_store::{PageKey, PageStore, PageStoreArgs, PageStoreFactory};
use parquet::errors::{ParquetError, Result};
use std::collections::HashMap;
use std::sync::atomic::{AtomicUsize, Ordering};
use std::sync::Arc;

#[derive(Debug, Default)]
pub struct Shared {
    pub calls: AtomicUsize,
    pub fail_at: AtomicUsize,
    pub persistent: std::sync::atomic::AtomicBool,
    pub fired: AtomicUsize,
    pub puts: AtomicUsize,
    pub takes: AtomicUsize,
}

#[derive(Debug)]
pub struct Factory(pub Arc<Shared>);

struct Store {
    sh: Arc<Shared>,
    blobs: HashMap<u64, Bytes>,
    next: u64,
}

impl Store {
    fn gate(&self, what: &str) -> Result<()> {
        let idx = self.sh.calls.fetch_add(1, Ordering::SeqCst);
        let at = self.sh.fail_at.load(Ordering::SeqCst);
        if idx == at || (self.sh.persistent.load(Ordering::SeqCst) && idx > at) {
            self.sh.fired.fetch_add(1, Ordering::SeqCst);
            return Err(ParquetError::External(Box::new(std::io::Error::new(std::io::ErrorKind::StorageFull, format!("simulated spill store failure in {what}")))));
        }
        Ok(())
    }
}

impl PageStore for Store {
    fn put(&mut self, value: Bytes) -> Result<PageKey> {
        self.gate("put")?;
        self.sh.puts.fetch_add(1, Ordering::SeqCst);
        // keys are opaque: not dense, not starting at zero
        let key = self.next * 7 + 3;
        self.next += 1;
        self.blobs.insert(key, value);
        Ok(PageKey::new(key))
    }
    fn take(&mut self, key: PageKey) -> Result<Bytes> {
        self.gate("take")?;
        self.sh.takes.fetch_add(1, Ordering::SeqCst);
        self.blobs.remove(&key.get()).ok_or_else(|| ParquetError::General(format!("simulated spill store: unknown or already taken key {}", key.get())))
    }
}

impl PageStoreFactory for Factory {
    fn create(&self, _args: &PageStoreArgs<'_>) -> Result<Box<dyn PageStore>> {
        Ok(Box::new(Store { sh: self.0.clone(), blobs: HashMap::new(), next: 0 }))
    }
}
