//! C18 engine: enumerate every sink call, every source call and every truncation length of one
//! workload, plus a tape-driven benign-fault part, and apply the oracle of DESIGN §4 (C18).

use crate::{Fmt, Post, ROut, Row, Trunc};
use simcore::io::{first_diff, is_prefix, Plan, SimSink, HARD_KINDS};
use simcore::{bail_v, Ctx, R};
use std::panic::{catch_unwind, AssertUnwindSafe};
use std::sync::Arc;

fn row_prefix(part: &[Row], whole: &[Row]) -> bool {
    part.len() <= whole.len() && part.iter().zip(whole.iter()).all(|(a, b)| a == b)
}

fn describe_rows_mismatch(part: &[Row], whole: &[Row]) -> String {
    if part.len() > whole.len() {
        return format!("{} rows returned, only {} were written", part.len(), whole.len());
    }
    gen::diff_rows(&whole[..part.len()], part).unwrap_or_else(|| "rows differ".into())
}

pub struct Reference {
    pub bytes: Arc<Vec<u8>>,
    pub sink_calls: usize,
    pub rows: Vec<Row>,
    pub source_calls: usize,
    pub write_offsets: Vec<usize>,
}

/// The fault-free run could not serve as a reference (it failed, panicked or returned an invalid batch).
/// No fault was injected, so this is not a C18 matter: the run is skipped and counted; the supervisor
/// turns a high skip rate into a harness error.
fn skip(ctx: &Ctx, f: &dyn Fmt, why: &str, detail: String) -> R<Option<Reference>> {
    ctx.count(&format!("skipped.{why}"), 1);
    ctx.count("skipped", 1);
    ctx.ev(why, 0, 0);
    ctx.note("skipped", serde_json::json!({"why": why, "format": f.name(), "detail": detail}));
    Ok(None)
}

/// Fault-free write and read; everything else is compared against this.
pub fn reference(ctx: &Ctx, f: &dyn Fmt) -> R<Option<Reference>> {
    let sink = SimSink::new(ctx, Plan::none());
    let w = match catch_unwind(AssertUnwindSafe(|| f.write(ctx, sink.clone(), Post::IntoInner))) {
        Ok(w) => w,
        Err(_) => return skip(ctx, f, "reference_write_panicked", String::new()),
    };
    if !w.api_ok {
        return skip(ctx, f, "reference_write_failed", format!("{:?}: {:?}", w.failed_call, w.first_err));
    }
    let (bytes, sink_calls, write_offsets) = {
        let st = sink.state();
        (st.data.clone(), st.calls, st.write_offsets.clone())
    };
    let bytes = Arc::new(f.normalise(ctx, bytes));
    let r = match catch_unwind(AssertUnwindSafe(|| f.read(ctx, bytes.clone(), Plan::none()))) {
        Ok(r) => r,
        Err(_) => return skip(ctx, f, "reference_read_panicked", String::new()),
    };
    if let Some(e) = &r.invalid {
        return skip(ctx, f, "reference_read_invalid_batch", e.clone());
    }
    if let Some(e) = &r.err {
        return skip(ctx, f, "reference_read_failed", e.clone());
    }
    ctx.ev_bytes("ref.bytes", &bytes);
    ctx.ev("ref.rows", r.rows.len() as u64, r.batches as u64);
    let source_calls = r.calls();
    Ok(Some(Reference { bytes, sink_calls, rows: r.rows, source_calls, write_offsets }))
}

fn check_read_outcome(ctx: &Ctx, f: &dyn Fmt, r: &ROut, truth: &[Row], what: &str, hard_fired: bool) -> R {
    let name = f.name();
    if let Some(v) = &r.sim_violation {
        return Err(v.clone());
    }
    if r.hang() {
        bail_v!(ctx, "hang", &format!("{name}.reader/{what}"), "reader kept calling the source more than {} times after end of data", simcore::io::EOF_CALL_BUDGET);
    }
    if let Some(e) = &r.invalid {
        bail_v!(ctx, "invalid_array", &format!("{name}.reader/{what}"), "reader returned an invalid batch: {e}");
    }
    if !row_prefix(&r.rows, truth) {
        bail_v!(ctx, "wrong_rows", &format!("{name}.reader/{what}"), "rows returned are not a prefix of the rows written: {}", describe_rows_mismatch(&r.rows, truth));
    }
    if hard_fired && r.err.is_none() {
        bail_v!(ctx, "swallowed_error", &format!("{name}.reader/{what}"), "source failed {} time(s) but the reader finished without an error ({} of {} rows returned)", r.hard_fired(), r.rows.len(), truth.len());
    }
    Ok(())
}

/// Variants of a fault at call k: 0-5 hard (persistent, post policy, Ok(0) instead of Err); 6 = one Interrupted; 7 = one short write.
const WRITE_VARIANTS: usize = 8;

/// A single benign misbehaviour (one Interrupted, or one short write) at sink call k: success must mean the
/// reference bytes; a clean error is tolerated by C18 (after a short write the sink must still hold a prefix).
fn write_benign_at(ctx: &Ctx, f: &dyn Fmt, rf: &Reference, k: usize, short: bool) -> R {
    let name = f.name();
    let plan = if short { Plan::short_at(k) } else { Plan::interrupted_at(k) };
    let sink = SimSink::new(ctx, plan);
    let w = f.write(ctx, sink.clone(), Post::IntoInner);
    if let Some(v) = &w.sim_violation {
        return Err(v.clone());
    }
    ctx.count("executions", 1);
    let st = sink.state();
    let fired = if short { st.short_fired > 0 } else { st.intr_fired > 0 };
    let data = f.normalise(ctx, st.data.clone());
    let what = if short { "short_write_at_k" } else { "interrupted_at_k" };
    if w.api_ok {
        if f.deterministic() && data != *rf.bytes {
            bail_v!(ctx, "wrong_bytes", &format!("{name}.writer/{what}"), "one {} at sink call {k} (fired={fired}), every writer API call returned Ok, but the sink holds {} bytes that differ from the {}-byte reference at byte {}",
                if short { "short write" } else { "Interrupted" }, data.len(), rf.bytes.len(), first_diff(&data, &rf.bytes));
        }
        if fired {
            ctx.probe(if short { "short_write_at_k_ok" } else { "interrupted_at_k_ok" });
        }
    } else if short && f.deterministic() && !is_prefix(&data, &rf.bytes) {
        bail_v!(ctx, "not_a_prefix", &format!("{name}.writer/{what}"), "after a clean error following one short write at call {k} the sink does not hold a prefix of the reference (first difference at {})", first_diff(&data, &rf.bytes));
    }
    Ok(())
}

pub fn write_fault_sweep(ctx: &Ctx, f: &dyn Fmt, rf: &Reference) -> R {
    let name = f.name();
    let n = rf.sink_calls;
    for j in ctx.sweep("w", n * WRITE_VARIANTS) {
        ctx.set_at("w", j as u64);
        let k = j / WRITE_VARIANTS;
        let variant = j % WRITE_VARIANTS;
        if variant >= 6 {
            write_benign_at(ctx, f, rf, k, variant == 7)?;
            continue;
        }
        let persistent = variant & 1 == 1;
        let post = if variant & 2 == 2 { Post::IntoInner } else { Post::Drop };
        let mut plan = Plan::hard(k, HARD_KINDS[(k + variant) % HARD_KINDS.len()], persistent);
        plan.zero_write = variant >= 4;
        let sink = SimSink::new(ctx, plan);
        let w = f.write(ctx, sink.clone(), post);
        if let Some(v) = &w.sim_violation {
            return Err(v.clone());
        }
        ctx.count("executions", 1);
        let st = sink.state();
        let fired = st.hard_fired > 0;
        // same length as st.data; only a random sync marker is rewritten
        let data = f.normalise(ctx, st.data.clone());
        if fired && w.api_ok {
            bail_v!(ctx, "swallowed_error", &format!("{name}.writer/call_{}", if st.flushes > 0 && k + 1 == n { "last" } else { "k" }),
                "sink failed at call {k} (variant {variant}: persistent={persistent} post={post:?} zero={}) but every writer API call returned Ok; sink holds {} of {} bytes",
                variant >= 4, st.data.len(), rf.bytes.len());
        }
        if f.deterministic() {
            if w.api_ok && !fired {
                if data != *rf.bytes {
                    bail_v!(ctx, "nondeterministic_output", &format!("{name}.writer/output"), "no fault fired, yet output differs from the reference at byte {}", first_diff(&data, &rf.bytes));
                }
            }
            // whatever was accepted up to the first fault must be a prefix of the fault-free output
            // (later API activity - into_inner() finishing, Drop flushing - may legitimately add bytes after a one-shot fault)
            let upto = st.len_at_first_hard.unwrap_or(data.len()).min(data.len());
            let before = if persistent { &data[..] } else { &data[..upto] };
            if !is_prefix(before, &rf.bytes) {
                bail_v!(ctx, "not_a_prefix", &format!("{name}.writer/prefix"), "sink failing at call {k} holds {} bytes that are not a prefix of the fault-free output (first difference at {})", before.len(), first_diff(before, &rf.bytes));
            }
        }
        if fired && !w.api_ok && post == Post::IntoInner && matches!(w.failed_call, Some("write" | "flush")) {
            ctx.probe("finish_attempted_after_failed_write");
        }
        if w.finish_ok_after_error && fired {
            ctx.probe("finish_ok_after_failed_write");
            // the caller went on to finish after an error and the writer reported success: then the sink must hold a
            // readable file / stream with (at least) every batch whose write() had returned Ok, and nothing that was not written
            let left = Arc::new(f.normalise(ctx, st.data.clone()));
            let r = f.read(ctx, left.clone(), Plan::none());
            ctx.count("executions", 1);
            let err_ok = r.err.is_none() || (f.trunc() == Trunc::PrefixThenErrOrEnd && r.rows.len() >= w.acked_rows);
            if !err_ok || r.invalid.is_some() || r.rows.len() < w.acked_rows || !row_prefix(&r.rows, &rf.rows) {
                bail_v!(ctx, "success_without_all_bytes", &format!("{name}.writer/finish_after_error"),
                    "sink failed once at call {k} (variant {variant}: zero={}), {}() returned the error after batches with {} rows had been accepted, the finishing call then reported success; the sink holds {} bytes (fault-free output: {}) that read back as {} rows{}{}",
                    variant >= 4, w.failed_call.unwrap_or("?"), w.acked_rows, left.len(), rf.bytes.len(), r.rows.len(),
                    r.err.as_ref().map(|e| format!(", then error: {e}")).unwrap_or_default(),
                    if row_prefix(&r.rows, &rf.rows) { "" } else { " that are not a prefix of the written rows" });
            }
        }
        if w.finish_ok_after_error {
            ctx.probe("finish_ok_after_error");
        }
        if w.api_ok && st.data.len() < rf.bytes.len() && f.deterministic() {
            bail_v!(ctx, "success_without_all_bytes", &format!("{name}.writer/finish"), "writer reported success but the sink accepted {} of {} bytes", st.data.len(), rf.bytes.len());
        }
        drop(st);
        // composite: the file as left behind by the crashed writer is handed to the reader
        // (not for CSV: a file cut inside a line is a valid file with a shorter last line - C18 excludes it, and a
        // writer that hands its 8 KiB buffer to the sink in mid-line leaves exactly that behind)
        if !w.api_ok && variant & 1 == 1 && variant < 4 && f.trunc() != Trunc::NotChecked {
            let left = Arc::new(f.normalise(ctx, sink.data()));
            if left.len() < rf.bytes.len() {
                let r = f.read(ctx, left.clone(), Plan::none());
                ctx.count("executions", 1);
                check_truncated(ctx, f, &r, &rf.rows, left.len(), rf.bytes.len(), "crashed_writer_file")?;
            }
        }
    }
    ctx.clear_at("w");
    Ok(())
}

fn check_truncated(ctx: &Ctx, f: &dyn Fmt, r: &ROut, truth: &[Row], len: usize, full: usize, what: &str) -> R {
    let name = f.name();
    check_read_outcome(ctx, f, r, truth, what, false)?;
    match f.trunc() {
        Trunc::Reject => {
            if r.err.is_none() {
                bail_v!(ctx, "truncated_file_accepted", &format!("{name}.reader/{what}"), "a {len}-byte prefix of a {full}-byte file was read to completion without an error ({} rows)", r.rows.len());
            }
        }
        Trunc::PrefixThenErrOrEnd | Trunc::NotChecked => {}
    }
    Ok(())
}

pub fn read_fault_sweep(ctx: &Ctx, f: &dyn Fmt, rf: &Reference) -> R {
    let m = rf.source_calls;
    for j in ctx.sweep("r", m * 4) {
        ctx.set_at("r", j as u64);
        let k = j / 4;
        if j % 4 >= 2 {
            // one Interrupted resp. one short read at source call k: the reader may retry or report an error,
            // but finishing without an error means all rows
            let short = j % 4 == 3;
            let r = f.read(ctx, rf.bytes.clone(), if short { Plan::short_at(k) } else { Plan::interrupted_at(k) });
            ctx.count("executions", 1);
            let what = if short { "short_read_at_k" } else { "interrupted_at_k" };
            check_read_outcome(ctx, f, &r, &rf.rows, what, false)?;
            if r.err.is_none() {
                if r.rows.len() != rf.rows.len() {
                    bail_v!(ctx, "wrong_rows", &format!("{}.reader/{what}", f.name()), "one {} at source call {k}: the reader finished without an error but returned {} of {} rows", if short { "short read" } else { "Interrupted" }, r.rows.len(), rf.rows.len());
                }
                ctx.probe(if short { "short_read_at_k_ok" } else { "interrupted_read_at_k_ok" });
            }
            continue;
        }
        let persistent = j % 4 == 1;
        let plan = Plan::hard(k, HARD_KINDS[(k + j) % HARD_KINDS.len()], persistent);
        let r = f.read(ctx, rf.bytes.clone(), plan);
        ctx.count("executions", 1);
        let fired = r.hard_fired() > 0;
        check_read_outcome(ctx, f, &r, &rf.rows, "source_error", fired)?;
        if !fired && r.err.is_none() && r.rows.len() != rf.rows.len() {
            bail_v!(ctx, "wrong_rows", &format!("{}.reader/source_error", f.name()), "no fault fired but {} of {} rows were returned", r.rows.len(), rf.rows.len());
        }
    }
    ctx.clear_at("r");
    Ok(())
}

pub fn truncation_sweep(ctx: &Ctx, f: &dyn Fmt, rf: &Reference) -> R {
    if f.trunc() == Trunc::NotChecked {
        return Ok(());
    }
    let len = rf.bytes.len();
    // every prefix for small files; for larger ones every structure edge +-2 and a stride
    let lens: Vec<usize> = if len <= 8192 {
        (0..len).collect()
    } else {
        let mut v: Vec<usize> = (0..len).step_by((len / 4096).max(1)).collect();
        for o in &rf.write_offsets {
            for d in 0..5usize {
                let p = (*o + d).saturating_sub(2);
                if p < len {
                    v.push(p);
                }
            }
        }
        v.sort_unstable();
        v.dedup();
        v
    };
    for j in ctx.sweep("t", lens.len()) {
        ctx.set_at("t", j as u64);
        let l = lens[j];
        let cut = Arc::new(rf.bytes[..l].to_vec());
        let r = f.read(ctx, cut, Plan::none());
        ctx.count("executions", 1);
        ctx.count("fault.truncation", 1);
        check_truncated(ctx, f, &r, &rf.rows, l, len, "truncation")?;
    }
    ctx.clear_at("t");
    Ok(())
}

/// Tape-driven benign misbehaviour: short writes / reads and bounded Interrupted bursts.
/// C18 tolerates a clean error here (success is promised by C04/C05/C14); wrong bytes or rows,
/// a panic or a hang are violations.
pub fn benign_part(ctx: &Ctx, f: &dyn Fmt, rf: &Reference) -> R {
    if !ctx.part("benign") {
        return Ok(());
    }
    let name = f.name();
    let rate = 1 + ctx.draw(8, "benign.rate");
    let intr = ctx.chance(1, 2, "benign.interrupted");
    let sink = SimSink::new(ctx, Plan::benign(rate, intr));
    let w = f.write(ctx, sink.clone(), Post::IntoInner);
    if let Some(v) = &w.sim_violation {
        return Err(v.clone());
    }
    ctx.count("executions", 1);
    let data = f.normalise(ctx, sink.data());
    if w.api_ok {
        if f.deterministic() && data != *rf.bytes {
            bail_v!(ctx, "wrong_bytes", &format!("{name}.writer/benign"), "short writes / Interrupted only, writer reported success, output differs from the reference at byte {} (len {} vs {})", first_diff(&data, &rf.bytes), data.len(), rf.bytes.len());
        }
        ctx.probe("benign_write_ok");
    } else {
        ctx.probe("benign_write_err");
        if f.deterministic() && !intr && !is_prefix(&data, &rf.bytes) {
            bail_v!(ctx, "not_a_prefix", &format!("{name}.writer/benign"), "after a clean error under short writes the sink does not hold a prefix of the reference");
        }
    }
    let r = f.read(ctx, rf.bytes.clone(), Plan::benign(rate, intr));
    ctx.count("executions", 1);
    check_read_outcome(ctx, f, &r, &rf.rows, "benign", false)?;
    if r.err.is_none() {
        if r.rows.len() != rf.rows.len() {
            bail_v!(ctx, "wrong_rows", &format!("{name}.reader/benign"), "short reads only, reader finished without error but returned {} of {} rows", r.rows.len(), rf.rows.len());
        }
        ctx.probe("benign_read_ok");
    } else {
        ctx.probe("benign_read_err");
        ctx.note("benign_read_err", serde_json::json!(r.err));
    }
    Ok(())
}

pub fn run_all(ctx: &Ctx, f: &dyn Fmt) -> R {
    ctx.note("format", f.describe());
    let Some(rf) = reference(ctx, f)? else {
        return Ok(());
    };
    ctx.count("bytes_written_reference", rf.bytes.len() as u64);
    ctx.count("sink_calls_enumerated", rf.sink_calls as u64);
    ctx.count("source_calls_enumerated", rf.source_calls as u64);
    ctx.shape(f.name(), rf.sink_calls as u64, rf.bytes.len() as u64);
    ctx.nontrivial();
    write_fault_sweep(ctx, f, &rf)?;
    read_fault_sweep(ctx, f, &rf)?;
    truncation_sweep(ctx, f, &rf)?;
    benign_part(ctx, f, &rf)?;
    Ok(())
}
