//! C15: Parquet sync, async and push readers agree under any I/O schedule.

use checks::c15::{async_row_groups, async_stream, async_tokio, compare, gen_file, push_decoder, rows_of_front, sync_reference, Front, PqFile, ROpts};
use simcore::{Ctx, Scenario, R};

#[global_allocator]
static A: simcore::alloc::CapAlloc = simcore::alloc::CapAlloc;

/// One file + one option set; the sync reader is the reference; `front` is run under `k` schedules.
fn run(ctx: &Ctx, who: &str, k: usize, front: fn(&Ctx, &PqFile, &ROpts) -> R<Front>) -> R {
    let Some(f) = gen_file(ctx, 60)? else { return Ok(()) };
    let o = ROpts::gen(ctx, &f);
    ctx.note("options", serde_json::json!(format!("{o:?}")));
    let reference = sync_reference(&f, &o);
    if let Some(e) = &reference.err {
        // the option set is not readable by the reference reader: nothing to agree with
        ctx.count("skipped", 1);
        ctx.count("skipped.reference_read_failed", 1);
        ctx.note("skipped", serde_json::json!(e));
        return Ok(());
    }
    for b in &reference.batches {
        if let Err(e) = gen::validate_batch(b) {
            ctx.count("skipped", 1);
            ctx.count("skipped.reference_invalid_batch", 1);
            ctx.note("skipped", serde_json::json!(e));
            return Ok(());
        }
    }
    let truth = rows_of_front(&reference);
    let sig = reference.batches.first().map(|b| gen::schema_sig(&b.schema(), false));
    ctx.ev("ref.rows", truth.len() as u64, reference.batches.len() as u64);
    ctx.nontrivial();
    ctx.shape(who, f.bytes.len() as u64, truth.len() as u64);
    if truth.is_empty() {
        ctx.probe("reference_has_no_rows");
    } else {
        ctx.probe("reference_has_rows");
    }
    if !o.preds.is_empty() {
        ctx.probe("with_predicates");
    }
    if o.selection.is_some() {
        ctx.probe("with_row_selection");
    }
    for i in 0..k {
        ctx.ev("schedule", i as u64, 0);
        let fr = front(ctx, &f, &o)?;
        ctx.count("executions", 1);
        compare(ctx, who, &fr, &truth, sig.as_deref(), o.batch_size)?;
    }
    Ok(())
}

fn s_async_stream(ctx: &Ctx) -> R {
    run(ctx, "parquet.async_stream", 3, async_stream)
}
fn s_async_row_groups(ctx: &Ctx) -> R {
    run(ctx, "parquet.async_next_row_group", 3, async_row_groups)
}
fn s_async_tokio(ctx: &Ctx) -> R {
    run(ctx, "parquet.async_tokio_io", 2, async_tokio)
}
fn s_push_decode(ctx: &Ctx) -> R {
    run(ctx, "parquet.push_decoder", 4, |c, f, o| push_decoder(c, f, o, false))
}
fn s_push_readers(ctx: &Ctx) -> R {
    run(ctx, "parquet.push_decoder.readers", 4, |c, f, o| push_decoder(c, f, o, true))
}

fn main() {
    simcore::main_with(
        "C15",
        &[
            Scenario { name: "async_stream", runs_quick: 5000, runs_thorough: 150000, f: s_async_stream },
            Scenario { name: "async_row_groups", runs_quick: 5000, runs_thorough: 150000, f: s_async_row_groups },
            Scenario { name: "async_tokio", runs_quick: 3000, runs_thorough: 80000, f: s_async_tokio },
            Scenario { name: "push_decode", runs_quick: 7000, runs_thorough: 200000, f: s_push_decode },
            Scenario { name: "push_readers", runs_quick: 7000, runs_thorough: 200000, f: s_push_readers },
        ],
    );
}
