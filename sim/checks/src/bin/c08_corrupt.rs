//! C08: untrusted bytes yield an error or valid data, never an invalid array (no panic, no hang, no allocation
//! unrelated to the input size).
//!
//! One run = one workload written by the real writer, then a batch of damaged copies of those bytes - the
//! damage is the simulated disk's fault kinds (bit flips, stuck bytes, truncation, length-field inflation,
//! lost / misdirected / torn sectors, splices from another file of the same format) placed uniformly or at
//! the structure edges the writer's own write calls reveal - each handed to the real safe reader.

use checks::avro::{avro_profile, AvroFmt};
use checks::ipc::{ipc_profile, IpcCfg, IpcFmt};
use checks::pq::{pq_profile_basic, PqCfg, PqFmt};
use checks::text::{csv_profile, json_profile, CsvFmt, JsonFmt};
use checks::{gen_workload, Fmt, Post, ROut};
use simcore::io::{Plan, SimSink};
use simcore::runner::set_component;
use simcore::{bail_v, Ctx, Scenario, R};
use std::panic::{catch_unwind, AssertUnwindSafe};
use std::sync::Arc;

#[global_allocator]
static A: simcore::alloc::CapAlloc = simcore::alloc::CapAlloc;

const CASES: usize = 48;
/// a single request above this on inputs of a few KiB is "memory unrelated to the input size"
/// (deliberately above arrow-ipc's documented 64 MiB bounded pre-allocation)
const MAX_SINGLE_ALLOC: usize = 256 << 20;

struct Written {
    bytes: Vec<u8>,
    edges: Vec<usize>,
}

fn write_ref(ctx: &Ctx, f: &dyn Fmt) -> Option<Written> {
    let sink = SimSink::new(ctx, Plan::none());
    match catch_unwind(AssertUnwindSafe(|| f.write(ctx, sink.clone(), Post::IntoInner))) {
        Ok(w) if w.api_ok => {}
        _ => {
            ctx.count("skipped", 1);
            ctx.count("skipped.reference_write_failed", 1);
            return None;
        }
    }
    let (data, edges) = {
        let st = sink.state();
        (st.data.clone(), st.write_offsets.clone())
    };
    // (Avro: the writer's random sync marker is replaced by a fixed one, so that a run is a function of its seed)
    Some(Written { bytes: f.normalise(ctx, data), edges })
}

/// Position for a fault: uniform, at a structure edge (+- a few bytes), or in the tail (footers live there).
fn position(ctx: &Ctx, len: usize, edges: &[usize]) -> usize {
    if len == 0 {
        return 0;
    }
    match ctx.draw(5, "disk.where") {
        // exactly at a structure edge: the first bytes of a length prefix, an offsets buffer, a page header
        0 if !edges.is_empty() => edges[ctx.below(edges.len(), "disk.edge")].min(len - 1),
        1 | 2 if !edges.is_empty() => {
            let e = edges[ctx.below(edges.len(), "disk.edge")];
            (e + ctx.below(12, "disk.edge_off")).saturating_sub(4).min(len - 1)
        }
        3 => len - 1 - ctx.below(len.min(48), "disk.tail"),
        _ => ctx.below(len, "disk.at"),
    }
}

/// Apply 1-3 storage faults. Returns a short description.
fn damage(ctx: &Ctx, v: &mut Vec<u8>, edges: &[usize], other: &[u8]) -> String {
    let d = damage_inner(ctx, v, edges, other);
    if std::env::var_os("VERIF_TRACE").is_some() {
        eprintln!("case: {d} (len {})", v.len());
    }
    d
}

fn damage_inner(ctx: &Ctx, v: &mut Vec<u8>, edges: &[usize], other: &[u8]) -> String {
    let n = 1 + *ctx.pick(&[0usize, 0, 0, 1, 2], "disk.faults");
    let mut desc = Vec::new();
    for _ in 0..n {
        if v.is_empty() {
            break;
        }
        let len = v.len();
        let at = position(ctx, len, edges);
        let kind = ctx.draw(11, "disk.kind");
        match kind {
            0 | 1 => {
                let bit = ctx.below(8, "disk.bit");
                v[at] ^= 1 << bit;
                ctx.fault("disk.bit_flip", at as u64);
                desc.push(format!("flip bit {bit} of byte {at}"));
            }
            2 => {
                let b = *ctx.pick(&[0x00u8, 0xFF, 0x7F, 0x80, 0x01, v[at].wrapping_add(1), v[at].wrapping_add(2), v[at].wrapping_sub(1)], "disk.byte");
                v[at] = b;
                ctx.fault("disk.stuck_byte", at as u64);
                desc.push(format!("byte {at} <- {b:#04x}"));
            }
            3 => {
                v.truncate(at);
                ctx.fault("disk.truncation", at as u64);
                desc.push(format!("truncate to {at}"));
            }
            4 | 5 => {
                // a 4- or 8-byte little-endian field is inflated / deflated
                let w = if ctx.chance(1, 2, "disk.wide") { 8 } else { 4 };
                if at + w <= len {
                    let mut x = [0u8; 8];
                    x[..w].copy_from_slice(&v[at..at + w]);
                    let old = u64::from_le_bytes(x);
                    let max = if w == 4 { u32::MAX as u64 } else { u64::MAX };
                    let new = match ctx.draw(10, "disk.field") {
                        0 => max,
                        1 => max >> 1,
                        2 | 7 => old.wrapping_add(1) & max,
                        3 => old.wrapping_sub(1) & max,
                        4 => old.wrapping_mul(2) & max,
                        5 => (old | 1 << (w * 8 - 2)) & max,
                        8 => old.wrapping_add(1 + ctx.below(9, "disk.small") as u64) & max,
                        9 => old.wrapping_sub(1 + ctx.below(9, "disk.small") as u64) & max,
                        _ => 0,
                    };
                    v[at..at + w].copy_from_slice(&new.to_le_bytes()[..w]);
                    ctx.fault("disk.length_field", at as u64);
                    desc.push(format!("{w}-byte field at {at}: {old} -> {new}"));
                }
            }
            6 => {
                // varint continuation bit set / value pushed up
                v[at] |= 0x80;
                if at + 1 < len && ctx.chance(1, 2, "disk.varint2") {
                    v[at + 1] |= 0x80;
                }
                ctx.fault("disk.varint_inflation", at as u64);
                desc.push(format!("varint continuation at {at}"));
            }
            7 => {
                let s = (at / 512) * 512;
                let e = (s + 512).min(len);
                v[s..e].fill(0);
                ctx.fault("disk.lost_sector", s as u64);
                desc.push(format!("sector {s}..{e} zeroed"));
            }
            8 => {
                let s = (at / 512) * 512;
                let e = (s + 512).min(len);
                let from = (ctx.below(len, "disk.from") / 512) * 512;
                let chunk: Vec<u8> = (0..e - s).map(|i| v[(from + i) % len]).collect();
                v[s..e].copy_from_slice(&chunk);
                ctx.fault("disk.misdirected_sector", s as u64);
                desc.push(format!("sector {s}..{e} <- contents of {from}"));
            }
            9 => {
                // torn write: the second half of the sector keeps stale (zero) contents
                let s = (at / 512) * 512;
                let e = (s + 512).min(len);
                let mid = s + (e - s) / 2;
                v[mid..e].fill(0);
                ctx.fault("disk.torn_sector", s as u64);
                desc.push(format!("sector {s}..{e} torn at {mid}"));
            }
            _ => {
                if !other.is_empty() {
                    let l = 1 + ctx.below(len.min(other.len()).min(256), "disk.splice_len");
                    let from = ctx.below(other.len() - l + 1, "disk.splice_from");
                    let to = at.min(len - l.min(len));
                    let l = l.min(len - to);
                    v[to..to + l].copy_from_slice(&other[from..from + l]);
                    ctx.fault("disk.splice", to as u64);
                    desc.push(format!("{l} bytes at {to} <- other file at {from}"));
                }
            }
        }
    }
    desc.join("; ")
}

fn judge(ctx: &Ctx, who: &str, r: &ROut, what: &str) -> R {
    if r.hang() {
        bail_v!(ctx, "hang", &format!("{who}/eof_spin"), "reader kept calling the source after end of data ({what})");
    }
    if r.batches >= 100_000 {
        bail_v!(ctx, "hang", &format!("{who}/endless_batches"), "reader produced 100000 batches from a few KiB ({what})");
    }
    if let Some(e) = &r.invalid {
        bail_v!(ctx, "invalid_array", &format!("{who}/batch"), "reader returned Ok with an invalid batch: {e} ({what})");
    }
    Ok(())
}

fn mem(ctx: &Ctx, who: &str, input_len: usize, what: &str) -> R {
    let m = simcore::alloc::max_single();
    if m > MAX_SINGLE_ALLOC {
        bail_v!(ctx, "oversized_allocation", &format!("{who}/alloc"), "a single allocation of {m} bytes was requested while reading {input_len} bytes ({what})");
    }
    Ok(())
}

/// Shared driver for the `Fmt`-based readers.
fn run_fmt(ctx: &Ctx, f: &dyn Fmt, other: &dyn Fmt, who: &str) -> R {
    run_fmt_n(ctx, f, other, who, CASES)
}

fn run_fmt_n(ctx: &Ctx, f: &dyn Fmt, other: &dyn Fmt, who: &str, cases: usize) -> R {
    ctx.note("format", f.describe());
    let Some(w) = write_ref(ctx, f) else { return Ok(()) };
    let o = write_ref(ctx, other).map(|w| w.bytes).unwrap_or_default();
    ctx.nontrivial();
    ctx.shape(who, w.bytes.len() as u64, w.edges.len() as u64);
    // the undamaged file must read (otherwise nothing below means anything)
    let r0 = f.read(ctx, Arc::new(w.bytes.clone()), Plan::none());
    if r0.err.is_some() || r0.invalid.is_some() {
        ctx.count("skipped", 1);
        ctx.count("skipped.reference_read_failed", 1);
        return Ok(());
    }
    for case in 0..cases {
        let mut v = w.bytes.clone();
        let what = damage(ctx, &mut v, &w.edges, &o);
        ctx.ev_bytes("case", &v);
        ctx.note("last_case", serde_json::json!({"case": case, "damage": what, "len": v.len()}));
        let n = v.len();
        simcore::alloc::reset();
        let r = f.read(ctx, Arc::new(v), Plan::none());
        ctx.count("executions", 1);
        ctx.step();
        if r.err.is_some() {
            ctx.count("outcome.error", 1);
        } else if r.rows == r0.rows {
            ctx.count("outcome.ok_same_rows", 1);
        } else {
            ctx.count("outcome.ok_other_rows", 1);
        }
        judge(ctx, who, &r, &what)?;
        mem(ctx, who, n, &what)?;
    }
    Ok(())
}

/// Every single-byte corruption of one small file: at each position the byte is incremented, one bit is flipped and
/// the byte is set to 0xFF (the property names "all single-byte corruptions" explicitly).
fn sweep_fmt(ctx: &Ctx, f: &dyn Fmt, who: &str, max_len: usize, variants: usize) -> R {
    ctx.note("format", f.describe());
    let Some(w) = write_ref(ctx, f) else { return Ok(()) };
    if w.bytes.len() > max_len {
        ctx.count("skipped.too_long_for_sweep", 1);
        return Ok(());
    }
    let r0 = f.read(ctx, Arc::new(w.bytes.clone()), Plan::none());
    if r0.err.is_some() || r0.invalid.is_some() {
        ctx.count("skipped", 1);
        ctx.count("skipped.reference_read_failed", 1);
        return Ok(());
    }
    ctx.nontrivial();
    ctx.shape(who, w.bytes.len() as u64, 0);
    let n = w.bytes.len();
    for j in ctx.sweep("b", n * variants) {
        ctx.set_at("b", j as u64);
        let (pos, variant) = (j / variants, j % variants);
        let mut v = w.bytes.clone();
        let what = match variant {
            0 => {
                v[pos] = v[pos].wrapping_add(1);
                format!("byte {pos} + 1")
            }
            1 => {
                let bit = (pos * 5 + 3) % 8;
                v[pos] ^= 1 << bit;
                format!("flip bit {bit} of byte {pos}")
            }
            _ => {
                if v[pos] == 0xFF {
                    continue;
                }
                v[pos] = 0xFF;
                format!("byte {pos} <- 0xff")
            }
        };
        ctx.fault("disk.single_byte", pos as u64);
        // (a listed known finding does not end the sweep: the bytes behind it are still visited)
        simcore::runner::sweep_case(ctx, || {
            simcore::alloc::reset();
            let r = f.read(ctx, Arc::new(v), Plan::none());
            ctx.count("executions", 1);
            ctx.step();
            judge(ctx, who, &r, &what)?;
            mem(ctx, who, n, &what)
        })?;
    }
    ctx.clear_at("b");
    Ok(())
}

fn sweep_ipc_stream(ctx: &Ctx) -> R {
    let mut p = ipc_profile(ctx);
    p.str_style = gen::types_api::StrStyle::Text;
    p.max_cols = 2;
    if ctx.chance(2, 3, "c08.sweep.strings") {
        // mostly variable-length columns: offsets, views and validity are where single bytes matter most
        use gen::types_api::Leaf::*;
        p.leaves = vec![Utf8, LargeUtf8, Utf8View, Binary, I32, Bool, Utf8];
        p.max_depth = 1;
    }
    let f = IpcFmt { wl: gen_workload(ctx, &p, 2, 6, false), cfg: IpcCfg::gen(ctx, false) };
    // (a damaged body length costs the stream reader a 64 MiB zeroed pre-allocation: one variant, short files)
    sweep_fmt(ctx, &f, "ipc.stream_reader", 1500, 1)
}

fn sweep_parquet(ctx: &Ctx) -> R {
    let mut p = pq_profile_basic(ctx);
    p.max_cols = 2;
    let wl = gen_workload(ctx, &p, 1, 12, false);
    let mut cfg = PqCfg::gen(ctx);
    cfg.bloom = false;
    if cfg.enc_salt == 0 {
        cfg.enc_salt = 1 + ctx.draw(200, "c08.enc_salt") as u8;
    }
    cfg.page_index = ctx.chance(1, 2, "c08.pageindex");
    sweep_fmt(ctx, &PqFmt { wl, cfg, flush_after: vec![] }, "parquet.reader", 2500, 3)
}

/// Dictionary-preserving reads: every column is `Dictionary<K, byte array>` with a narrow or wide key type and
/// dictionary-encoded pages, so that the index stream (RLE / bit-packed runs) and the key conversion are in
/// front of every damaged byte.
fn sweep_parquet_dict(ctx: &Ctx) -> R {
    use arrow_schema::{DataType, Field, Schema};
    let p = pq_profile_basic(ctx);
    let ncols = 1 + ctx.below(2, "c08.dict.cols");
    let fields: Vec<Field> = (0..ncols)
        .map(|i| {
            let k = ctx.pick(&[DataType::Int8, DataType::Int16, DataType::Int8, DataType::UInt8, DataType::Int32, DataType::Int8, DataType::UInt16], "c08.dict.key").clone();
            let v = ctx.pick(&[DataType::Utf8, DataType::Binary, DataType::LargeUtf8, DataType::LargeBinary], "c08.dict.val").clone();
            Field::new(format!("c{i}"), DataType::Dictionary(Box::new(k), Box::new(v)), ctx.chance(3, 4, "c08.dict.nullable"))
        })
        .collect();
    let schema = Arc::new(Schema::new(fields));
    let rows = 1 + ctx.below(8, "c08.dict.rows");
    let (lb, rb) = gen::gen_batch(ctx, &schema, rows, &p);
    // rows repeated 1-17 times: runs of equal indices are RLE runs (whose value byte is not masked to the bit
    // width), shorter stretches are bit-packed groups
    let reps: Vec<usize> = (0..rows).map(|_| *ctx.pick(&[1usize, 8, 2, 9, 17], "c08.dict.rep")).collect();
    let idx: Vec<u32> = reps.iter().enumerate().flat_map(|(i, r)| std::iter::repeat(i as u32).take(*r)).collect();
    let ia = arrow_array::UInt32Array::from(idx.clone());
    let cols: Vec<arrow_array::ArrayRef> = rb.columns().iter().map(|c| arrow_select::take::take(c.as_ref(), &ia, None).expect("take")).collect();
    let rb = arrow_array::RecordBatch::try_new(schema.clone(), cols).expect("batch");
    let lb = gen::LBatch { cols: lb.cols.iter().map(|c| idx.iter().map(|i| c[*i as usize].clone()).collect()).collect(), rows: idx.len() };
    let wl = checks::Workload { schema, batches: vec![rb], logical: vec![lb] };
    let mut cfg = PqCfg::gen(ctx);
    cfg.bloom = false;
    cfg.dict = true;
    cfg.enc_salt = 0;
    cfg.page_index = false;
    if ctx.chance(2, 3, "c08.dict.uncompressed") {
        // a damaged byte of a compressed page mostly ends in the codec; uncompressed pages expose the index stream
        cfg.codec = 0;
    }
    sweep_fmt(ctx, &PqFmt { wl, cfg, flush_after: vec![] }, "parquet.reader", 2500, 3)
}

fn sweep_avro(ctx: &Ctx) -> R {
    let p = avro_profile(ctx);
    let f = AvroFmt::new(gen_workload(ctx, &p, 2, 6, false), AvroFmt::gen_cfg(ctx, true));
    sweep_fmt(ctx, &f, "avro.ocf_reader", 2500, 3)
}

fn ipc(ctx: &Ctx, file: bool) -> R {
    let mut p = ipc_profile(ctx);
    if ctx.chance(1, 2, "c08.text") {
        // multi-byte and non-BMP characters: offsets can then land inside a code point
        p.str_style = gen::types_api::StrStyle::Text;
    }
    let mk = |ctx: &Ctx| {
        let mut wl = gen_workload(ctx, &p, 3, 10, true);
        if file && wl.schema.fields().iter().any(|f| checks::c04::has_dict(f.data_type())) {
            wl.batches.truncate(1);
            wl.logical.truncate(1);
        }
        IpcFmt { wl, cfg: IpcCfg::gen(ctx, file) }
    };
    let (f, o) = (mk(ctx), mk(ctx));
    // the file reader's bounded pre-allocation (64 MiB, zeroed) for every damaged block length makes a case
    // cost tens of milliseconds of memory bandwidth: fewer cases per run there
    run_fmt_n(ctx, &f, &o, if file { "ipc.file_reader" } else { "ipc.stream_reader" }, if file { 12 } else { CASES })
}
fn ipc_file(ctx: &Ctx) -> R {
    ipc(ctx, true)
}
fn ipc_stream(ctx: &Ctx) -> R {
    ipc(ctx, false)
}

fn parquet(ctx: &Ctx) -> R {
    let p = pq_profile_basic(ctx);
    let mk = |ctx: &Ctx| {
        let wl = gen_workload(ctx, &p, 2, 24, true);
        let mut cfg = PqCfg::gen(ctx);
        cfg.page_index = ctx.chance(1, 2, "c08.pageindex");
        PqFmt { wl, cfg, flush_after: vec![] }
    };
    let (f, o) = (mk(ctx), mk(ctx));
    run_fmt(ctx, &f, &o, "parquet.reader")
}

fn avro_ocf(ctx: &Ctx) -> R {
    let p = avro_profile(ctx);
    let mk = |ctx: &Ctx| AvroFmt::new(gen_workload(ctx, &p, 3, 10, true), AvroFmt::gen_cfg(ctx, true));
    let (f, o) = (mk(ctx), mk(ctx));
    run_fmt(ctx, &f, &o, "avro.ocf_reader")
}

fn csv(ctx: &Ctx) -> R {
    let p = csv_profile(ctx);
    let mk = |ctx: &Ctx| CsvFmt { wl: gen_workload(ctx, &p, 3, 12, true), cfg: CsvFmt::gen_cfg(ctx), into_inner: false };
    let (f, o) = (mk(ctx), mk(ctx));
    run_fmt(ctx, &f, &o, "csv.reader")
}

fn json(ctx: &Ctx) -> R {
    let p = json_profile(ctx);
    let mk = |ctx: &Ctx| JsonFmt { wl: gen_workload(ctx, &p, 3, 10, true), cfg: JsonFmt::gen_cfg(ctx) };
    let (f, o) = (mk(ctx), mk(ctx));
    run_fmt(ctx, &f, &o, "json.reader")
}

/// StreamDecoder (push) over damaged IPC streams, one chunk.
fn stream_decoder(ctx: &Ctx) -> R {
    let p = ipc_profile(ctx);
    let f = IpcFmt { wl: gen_workload(ctx, &p, 3, 10, true), cfg: IpcCfg::gen(ctx, false) };
    let Some(w) = write_ref(ctx, &f) else { return Ok(()) };
    ctx.nontrivial();
    ctx.shape("ipc.stream_decoder", w.bytes.len() as u64, w.edges.len() as u64);
    for _ in 0..CASES {
        let mut v = w.bytes.clone();
        let what = damage(ctx, &mut v, &w.edges, &[]);
        ctx.note("last_case", serde_json::json!({"damage": what, "len": v.len()}));
        ctx.ev_bytes("case", &v);
        let n = v.len();
        simcore::alloc::reset();
        set_component("ipc.stream_decoder");
        let mut dec = arrow_ipc::reader::StreamDecoder::new();
        let mut buf = arrow_buffer::Buffer::from(v);
        let mut steps = 0;
        let mut batches = 0;
        while !buf.is_empty() {
            steps += 1;
            if steps > 1_000_000 {
                bail_v!(ctx, "hang", "ipc.stream_decoder/steps", "no progress within 1000000 decode calls ({what})");
            }
            match dec.decode(&mut buf) {
                Err(_) => break,
                Ok(None) => {}
                Ok(Some(b)) => {
                    batches += 1;
                    if let Err(e) = gen::validate_batch(&b) {
                        bail_v!(ctx, "invalid_array", "ipc.stream_decoder/batch", "decoder returned Ok with an invalid batch: {e} ({what})");
                    }
                }
            }
        }
        let _ = batches;
        ctx.count("executions", 1);
        ctx.step();
        mem(ctx, "ipc.stream_decoder", n, &what)?;
    }
    Ok(())
}

/// Parquet metadata: pull reader and push decoder over a damaged file (footer-biased damage).
fn pq_meta(ctx: &Ctx) -> R {
    use bytes::Bytes;
    use parquet::file::metadata::{PageIndexPolicy, ParquetMetaDataPushDecoder, ParquetMetaDataReader};
    use parquet::DecodeResult;
    let Some(f) = checks::c15::gen_file(ctx, 30)? else { return Ok(()) };
    ctx.nontrivial();
    ctx.shape("parquet.metadata", f.bytes.len() as u64, 0);
    for _ in 0..CASES {
        let mut v = f.bytes.to_vec();
        // the footer region is where the metadata lives
        let edges: Vec<usize> = vec![v.len().saturating_sub(8), v.len().saturating_sub(4), v.len().saturating_sub(64)];
        let what = damage(ctx, &mut v, &edges, &[]);
        ctx.note("last_case", serde_json::json!({"damage": what, "len": v.len()}));
        ctx.ev_bytes("case", &v);
        let n = v.len();
        let b = Bytes::from(v);
        let policy = if ctx.chance(1, 2, "c08.meta.pageindex") { PageIndexPolicy::Optional } else { PageIndexPolicy::Skip };
        simcore::alloc::reset();
        set_component("parquet.metadata_reader");
        let _ = ParquetMetaDataReader::new().with_page_index_policy(policy).parse_and_finish(&b);
        ctx.count("executions", 1);
        mem(ctx, "parquet.metadata_reader", n, &what)?;
        simcore::alloc::reset();
        set_component("parquet.metadata_push_decoder");
        if let Ok(d) = ParquetMetaDataPushDecoder::try_new(n as u64) {
            let mut d = d.with_page_index_policy(policy);
            for round in 0..16 {
                match d.try_decode() {
                    Ok(DecodeResult::NeedsData(ranges)) => {
                        if round == 15 {
                            bail_v!(ctx, "hang", "parquet.metadata_push_decoder/rounds", "still asking for data after 16 rounds ({what})");
                        }
                        let mut bad = false;
                        for r in &ranges {
                            if r.start > r.end || r.end > n as u64 {
                                bad = true;
                            }
                        }
                        if bad {
                            bail_v!(ctx, "range_outside_file", "parquet.metadata_push_decoder/request", "requested {:?} of a {n}-byte file ({what})", &ranges[..ranges.len().min(3)]);
                        }
                        let data = ranges.iter().map(|r| b.slice(r.start as usize..r.end as usize)).collect();
                        if d.push_ranges(ranges, data).is_err() {
                            break;
                        }
                    }
                    _ => break,
                }
            }
        }
        ctx.count("executions", 1);
        ctx.step();
        mem(ctx, "parquet.metadata_push_decoder", n, &what)?;
    }
    Ok(())
}

/// Flight decoder over damaged messages (header or body bytes of one FlightData message).
fn flight(ctx: &Ctx) -> R {
    use arrow_flight::decode::FlightRecordBatchStream;
    use arrow_flight::encode::FlightDataEncoderBuilder;
    use arrow_flight::error::FlightError;
    use arrow_flight::FlightData;
    use futures::StreamExt;
    use simcore::aio::{Executor, Gate};
    let mut p = ipc_profile(ctx);
    p.union = false;
    let wl = gen_workload(ctx, &p, 2, 8, true);
    let gate = Gate::new();
    let mut ex = Executor::new(ctx, &gate);
    let mut enc = FlightDataEncoderBuilder::new().with_options(IpcCfg::gen(ctx, false).options()).build(futures::stream::iter(wl.batches.clone().into_iter().map(Ok::<_, FlightError>)));
    let mut msgs: Vec<FlightData> = vec![];
    loop {
        match ex.block_on(enc.next(), "flight.encoder(reference)")? {
            None => break,
            Some(Ok(m)) => msgs.push(m),
            Some(Err(_)) => {
                ctx.count("skipped", 1);
                return Ok(());
            }
        }
    }
    if msgs.is_empty() {
        return Ok(());
    }
    ctx.nontrivial();
    ctx.shape("flight.decoder", msgs.len() as u64, 0);
    for _ in 0..CASES {
        let mut ms = msgs.clone();
        let i = ctx.below(ms.len(), "c08.fl.msg");
        let body = ctx.chance(1, 2, "c08.fl.body");
        let mut v = if body { ms[i].data_body.to_vec() } else { ms[i].data_header.to_vec() };
        let what = format!("message {i} {}: {}", if body { "body" } else { "header" }, damage(ctx, &mut v, &[], &[]));
        ctx.note("last_case", serde_json::json!({"damage": what}));
        ctx.ev_bytes("case", &v);
        let n: usize = ms.iter().map(|m| m.data_body.len() + m.data_header.len()).sum();
        if body {
            ms[i].data_body = v.into();
        } else {
            ms[i].data_header = v.into();
        }
        simcore::alloc::reset();
        set_component("flight.decoder");
        let mut dec = FlightRecordBatchStream::new_from_flight_data(futures::stream::iter(ms.into_iter().map(Ok::<_, FlightError>)));
        let mut count = 0;
        loop {
            match ex.block_on(dec.next(), "flight.decoder")? {
                None | Some(Err(_)) => break,
                Some(Ok(b)) => {
                    count += 1;
                    if let Err(e) = gen::validate_batch(&b) {
                        bail_v!(ctx, "invalid_array", "flight.decoder/batch", "decoder returned Ok with an invalid batch: {e} ({what})");
                    }
                    if count > 100_000 {
                        bail_v!(ctx, "hang", "flight.decoder/endless_batches", "more than 100000 batches ({what})");
                    }
                }
            }
        }
        ctx.count("executions", 1);
        ctx.step();
        mem(ctx, "flight.decoder", n, &what)?;
    }
    Ok(())
}

/// Variant binary format: `Variant::try_new` on damaged metadata / value bytes, then a full traversal.
fn variant(ctx: &Ctx) -> R {
    use parquet_variant::{Variant, VariantBuilder};
    fn fill_value(ctx: &Ctx, depth: u32) -> serde_json::Value {
        match ctx.draw(if depth < 3 { 8 } else { 6 }, "var.kind") {
            0 => serde_json::Value::Null,
            1 => serde_json::json!(ctx.chance(1, 2, "var.bool")),
            2 => serde_json::json!(ctx.range(-5, 300, "var.int")),
            3 => serde_json::json!(ctx.range(-100000, 100000, "var.int2") as f64 / 7.0),
            4 | 5 => serde_json::json!(["", "a", "field", "a longer string value that does not fit the short form of sixty-three bytes....."][ctx.below(4, "var.str")]),
            6 => serde_json::Value::Array((0..ctx.below(4, "var.list.n")).map(|_| fill_value(ctx, depth + 1)).collect()),
            _ => serde_json::Value::Object((0..ctx.below(4, "var.obj.n")).map(|i| (["a", "b", "key", "zz"][i].to_string(), fill_value(ctx, depth + 1))).collect()),
        }
    }
    fn build_list(lb: &mut parquet_variant::ListBuilder<'_, impl parquet_variant::BuilderSpecificState>, v: &serde_json::Value) {
        match v {
            serde_json::Value::Array(items) => {
                let mut l = lb.new_list();
                for i in items {
                    build_list(&mut l, i);
                }
                l.finish();
            }
            serde_json::Value::Object(m) => {
                let mut o = lb.new_object();
                for (k, x) in m {
                    build_obj(&mut o, k, x);
                }
                o.finish();
            }
            serde_json::Value::Null => lb.append_value(()),
            serde_json::Value::Bool(b) => lb.append_value(*b),
            serde_json::Value::Number(n) if n.is_i64() => lb.append_value(n.as_i64().unwrap()),
            serde_json::Value::Number(n) => lb.append_value(n.as_f64().unwrap()),
            serde_json::Value::String(s) => lb.append_value(s.as_str()),
        }
    }
    fn build_obj(ob: &mut parquet_variant::ObjectBuilder<'_, impl parquet_variant::BuilderSpecificState>, key: &str, v: &serde_json::Value) {
        match v {
            serde_json::Value::Array(items) => {
                let mut l = ob.new_list(key);
                for i in items {
                    build_list(&mut l, i);
                }
                l.finish();
            }
            serde_json::Value::Object(m) => {
                let mut o = ob.new_object(key);
                for (k, x) in m {
                    build_obj(&mut o, k, x);
                }
                o.finish();
            }
            serde_json::Value::Null => ob.insert(key, ()),
            serde_json::Value::Bool(b) => ob.insert(key, *b),
            serde_json::Value::Number(n) if n.is_i64() => ob.insert(key, n.as_i64().unwrap()),
            serde_json::Value::Number(n) => ob.insert(key, n.as_f64().unwrap()),
            serde_json::Value::String(s) => ob.insert(key, s.as_str()),
        }
    }
    fn walk(v: &Variant<'_, '_>, budget: &mut u64) {
        if *budget == 0 {
            return;
        }
        *budget -= 1;
        match v {
            Variant::Object(o) => {
                for i in 0..o.len() {
                    let _ = o.field_name(i);
                }
                for (k, x) in o.iter() {
                    let _ = o.get(k);
                    walk(&x, budget);
                }
            }
            Variant::List(l) => {
                for x in l.iter() {
                    walk(&x, budget);
                }
            }
            other => {
                let _ = format!("{other:?}");
            }
        }
    }
    let doc = serde_json::Value::Object((0..1 + ctx.below(4, "var.top")).map(|i| (["a", "b", "key", "zz"][i].to_string(), fill_value(ctx, 0))).collect());
    let (meta, value) = simcore::runner::harness(|| {
        let mut b = VariantBuilder::new();
        let serde_json::Value::Object(m) = &doc else { unreachable!() };
        let mut o = b.new_object();
        for (k, x) in m {
            build_obj(&mut o, k, x);
        }
        o.finish();
        b.finish()
    });
    ctx.nontrivial();
    ctx.shape("variant", meta.len() as u64, value.len() as u64);
    for _ in 0..CASES * 4 {
        let (mut m, mut v) = (meta.clone(), value.clone());
        let what = if ctx.chance(1, 3, "var.damage_meta") { format!("metadata: {}", damage(ctx, &mut m, &[], &value)) } else { format!("value: {}", damage(ctx, &mut v, &[], &meta)) };
        ctx.note("last_case", serde_json::json!({"damage": what, "metadata": m, "value": v}));
        ctx.ev_bytes("case.m", &m);
        ctx.ev_bytes("case.v", &v);
        simcore::alloc::reset();
        set_component("variant");
        if let Ok(x) = Variant::try_new(&m, &v) {
            let mut budget = 100_000u64;
            walk(&x, &mut budget);
            if budget == 0 {
                bail_v!(ctx, "hang", "variant/traversal", "traversal of a validated variant visited more than 100000 nodes from {} bytes ({what})", m.len() + v.len());
            }
            ctx.count("outcome.ok", 1);
        } else {
            ctx.count("outcome.error", 1);
        }
        ctx.count("executions", 1);
        ctx.step();
        mem(ctx, "variant", m.len() + v.len(), &what)?;
    }
    Ok(())
}

fn main() {
    // requests above 1 GiB are refused outright (the process aborts inside the run and the supervisor attributes it)
    simcore::alloc::set_refuse_above(1 << 30);
    gen::set_physical_nullability(true);
    simcore::main_with(
        "C08",
        &[
            Scenario { name: "ipc_file", runs_quick: 1200, runs_thorough: 9600, f: ipc_file },
            Scenario { name: "ipc_stream", runs_quick: 1500, runs_thorough: 12000, f: ipc_stream },
            Scenario { name: "stream_decoder", runs_quick: 1500, runs_thorough: 12000, f: stream_decoder },
            Scenario { name: "flight", runs_quick: 1000, runs_thorough: 8000, f: flight },
            Scenario { name: "parquet", runs_quick: 1500, runs_thorough: 12000, f: parquet },
            Scenario { name: "pq_meta", runs_quick: 1000, runs_thorough: 8000, f: pq_meta },
            Scenario { name: "avro_ocf", runs_quick: 1000, runs_thorough: 8000, f: avro_ocf },
            Scenario { name: "csv", runs_quick: 800, runs_thorough: 6400, f: csv },
            Scenario { name: "json", runs_quick: 800, runs_thorough: 6400, f: json },
            Scenario { name: "variant", runs_quick: 1500, runs_thorough: 12000, f: variant },
            Scenario { name: "sweep_ipc_stream", runs_quick: 96, runs_thorough: 768, f: sweep_ipc_stream },
            Scenario { name: "sweep_parquet", runs_quick: 240, runs_thorough: 1920, f: sweep_parquet },
            Scenario { name: "sweep_parquet_dict", runs_quick: 80, runs_thorough: 640, f: sweep_parquet_dict },
            Scenario { name: "sweep_avro", runs_quick: 120, runs_thorough: 960, f: sweep_avro },
        ],
    );
}
