//! C05: Parquet write then read returns the same Arrow types and values.
//!
//! One run = one logical table written under a tape-chosen history (partition of the rows into
//! write() calls on slices of one batch, explicit flushes) and configuration, serially through
//! `ArrowWriter` or through independent column writers driven by a seeded scheduler, then read back
//! with a tape-chosen batch size and compared with the logical rows it was generated from.

use arrow_array::{ArrayRef, RecordBatch};
use arrow_schema::{DataType, SchemaRef};
use bytes::Bytes;
use checks::pq::PqCfg;
use checks::Row;
use gen::types_api::{Leaf, Profile};
use parquet::arrow::arrow_reader::ParquetRecordBatchReaderBuilder;
use parquet::arrow::arrow_writer::{compute_leaves, ArrowColumnChunk, ArrowColumnWriter, ArrowLeafColumn};
use parquet::arrow::ArrowWriter;
use simcore::runner::set_component;
use simcore::{bail_v, Ctx, Scenario, R};
use std::collections::VecDeque;
use std::panic::{catch_unwind, AssertUnwindSafe};

#[global_allocator]
static A: simcore::alloc::CapAlloc = simcore::alloc::CapAlloc;

fn profile(ctx: &Ctx) -> Profile {
    let mut p = Profile::flat(&[
        Leaf::Bool, Leaf::I8, Leaf::I16, Leaf::I32, Leaf::I64, Leaf::U8, Leaf::U16, Leaf::U32, Leaf::U64, Leaf::F16, Leaf::F32, Leaf::F64, Leaf::Dec32, Leaf::Dec64, Leaf::Dec128, Leaf::Dec256,
        Leaf::Date32, Leaf::Time32, Leaf::Time64, Leaf::Ts, Leaf::TsTz, Leaf::Utf8, Leaf::LargeUtf8, Leaf::Utf8View, Leaf::Binary, Leaf::LargeBinary, Leaf::BinaryView, Leaf::Fsb,
    ]);
    p.strukt = true;
    p.list = true;
    p.large_list = true;
    p.list_view = true;
    p.fsl = true;
    p.map = true;
    p.dict = true;
    p.max_depth = *ctx.pick(&[2u32, 0, 1, 3], "c05.depth");
    p.max_cols = 4;
    p.str_style = if ctx.chance(1, 3, "c05.text") { gen::types_api::StrStyle::Text } else { gen::types_api::StrStyle::Plain };
    p.small_dict_keys = false;
    // null density varies per run: all valid, sparse, half, mostly null (fast paths key on it)
    p.null_rate = *ctx.pick(&[3u64, 0, 8, 12, 15], "c05.null_rate");
    p
}

fn zero_width(dt: &DataType) -> bool {
    match dt {
        DataType::FixedSizeBinary(0) | DataType::FixedSizeList(_, 0) => true,
        DataType::List(f) | DataType::LargeList(f) | DataType::ListView(f) | DataType::LargeListView(f) | DataType::FixedSizeList(f, _) | DataType::Map(f, _) => zero_width(f.data_type()),
        DataType::Struct(fs) => fs.iter().any(|f| zero_width(f.data_type())),
        DataType::Dictionary(_, v) => zero_width(v),
        _ => false,
    }
}

struct Table {
    schema: SchemaRef,
    batch: RecordBatch,
    rows: Vec<Row>,
}

fn gen_table(ctx: &Ctx, p: &Profile) -> Table {
    let schema = gen::gen_schema(ctx, p);
    // mostly small tables; some long enough for ranges of several hundred slots inside one write()
    let n = if ctx.chance(1, 6, "c05.long") { 100 + ctx.below(500, "c05.rows_long") } else { ctx.size(160, "c05.rows") };
    let (lb, batch) = gen::gen_batch(ctx, &schema, n, p);
    ctx.note("schema", serde_json::json!(gen::schema_sig(&schema, false)));
    ctx.note("rows", serde_json::json!(n));
    Table { schema, batch, rows: lb.to_rows() }
}

/// The write history: consecutive slices of the table, each followed or not by an explicit flush.
fn history(ctx: &Ctx, n: usize) -> Vec<(usize, usize, bool)> {
    let mut out = Vec::new();
    let mut at = 0;
    let style = ctx.draw(4, "h.style");
    while at < n {
        let max = match style {
            0 => n - at,
            1 => 3,
            2 => 17,
            _ => 64,
        };
        let mut len = ctx.below(max.min(n - at) + 1, "h.len");
        if len == 0 && !ctx.chance(1, 4, "h.empty") {
            len = 1;
        }
        out.push((at, len, ctx.chance(1, 6, "h.flush")));
        at += len;
    }
    if n == 0 && ctx.chance(1, 2, "h.empty_only") {
        out.push((0, 0, false));
    }
    out
}

fn read_back(ctx: &Ctx, bytes: Vec<u8>, batch_size: usize) -> Result<(Option<SchemaRef>, Vec<RecordBatch>), String> {
    set_component("parquet.sync_reader");
    let b = ParquetRecordBatchReaderBuilder::try_new(Bytes::from(bytes)).map_err(|e| e.to_string())?;
    let schema = b.schema().clone();
    let r = b.with_batch_size(batch_size).build().map_err(|e| e.to_string())?;
    let mut out = vec![];
    for x in r {
        out.push(x.map_err(|e| e.to_string())?);
        ctx.step();
    }
    Ok((Some(schema), out))
}

fn compare(ctx: &Ctx, who: &str, t: &Table, schema: Option<SchemaRef>, batches: &[RecordBatch], batch_size: usize) -> R {
    let want_sig = gen::schema_sig(&t.schema, false);
    if let Some(s) = &schema {
        let sig = gen::schema_sig(s, false);
        if sig != want_sig {
            bail_v!(ctx, "schema_differs", &format!("{who}/schema"), "written {want_sig}, read back {sig}");
        }
    }
    let mut rows: Vec<Row> = Vec::new();
    for (i, b) in batches.iter().enumerate() {
        if let Err(e) = gen::validate_batch(b) {
            // one failure has a discriminating key of its own (known finding, DESIGN 11.6)
            let key = if e.contains("contains nulls not present in parent") { format!("{who}/batch.non_nullable_child_under_null_parent") } else { format!("{who}/batch") };
            bail_v!(ctx, "invalid_array", &key, "batch {i} read back invalid: {e}");
        }
        if b.num_rows() > batch_size.max(1) {
            bail_v!(ctx, "batch_too_large", &format!("{who}/batch"), "batch {i} has {} rows, batch size {batch_size}", b.num_rows());
        }
        let sig = gen::schema_sig(&b.schema(), false);
        if sig != want_sig {
            bail_v!(ctx, "schema_differs", &format!("{who}/batch_schema"), "batch {i}: written {want_sig}, read back {sig}");
        }
        rows.extend(gen::rows_of(b));
    }
    if let Some(d) = gen::diff_rows(&t.rows, &rows) {
        bail_v!(ctx, "rows_differ", &format!("{who}/rows"), "{} rows written, {} read back: {d}", t.rows.len(), rows.len());
    }
    Ok(())
}

fn probes(ctx: &Ctx, bytes: &[u8]) {
    // reach: what the file actually contains (from its own metadata)
    if let Ok(m) = parquet::file::metadata::ParquetMetaDataReader::new().parse_and_finish(&Bytes::copy_from_slice(bytes)) {
        if m.num_row_groups() > 1 {
            ctx.probe("several_row_groups");
        }
        for rg in m.row_groups() {
            for c in rg.columns() {
                let encs: Vec<_> = c.encodings().collect();
                let dict = c.dictionary_page_offset().is_some();
                if dict && encs.iter().any(|e| matches!(e, parquet::basic::Encoding::PLAIN | parquet::basic::Encoding::DELTA_BYTE_ARRAY | parquet::basic::Encoding::DELTA_BINARY_PACKED | parquet::basic::Encoding::DELTA_LENGTH_BYTE_ARRAY)) && encs.iter().any(|e| matches!(e, parquet::basic::Encoding::RLE_DICTIONARY | parquet::basic::Encoding::PLAIN_DICTIONARY)) {
                    ctx.probe("dictionary_fallback_in_chunk");
                }
                if encs.iter().any(|e| matches!(e, parquet::basic::Encoding::DELTA_LENGTH_BYTE_ARRAY)) {
                    ctx.probe("enc.delta_length_byte_array");
                }
                if encs.iter().any(|e| matches!(e, parquet::basic::Encoding::DELTA_BINARY_PACKED)) {
                    ctx.probe("enc.delta_binary_packed");
                }
                if encs.iter().any(|e| matches!(e, parquet::basic::Encoding::BYTE_STREAM_SPLIT)) {
                    ctx.probe("enc.byte_stream_split");
                }
            }
        }
    }
}

fn serial(ctx: &Ctx) -> R {
    let p = profile(ctx);
    let t = gen_table(ctx, &p);
    if t.schema.fields().iter().any(|f| zero_width(f.data_type())) {
        // ArrowWriter panics on zero-width fixed-size types (recorded as a known finding of this check, see `zero_width` scenario)
        ctx.count("skipped", 1);
        ctx.count("skipped.zero_width_type", 1);
        return Ok(());
    }
    let cfg = PqCfg::gen(ctx);
    let h = history(ctx, t.rows.len());
    ctx.note("cfg", serde_json::json!(format!("{cfg:?}")));
    ctx.note("history", serde_json::json!(h));
    ctx.nontrivial();
    ctx.shape("serial", h.len() as u64, t.rows.len() as u64);
    set_component("parquet.arrow_writer");
    let mut buf = Vec::new();
    let spill = ctx.chance(1, 4, "c05.spill");
    if spill {
        ctx.probe("page_store_spill");
    }
    let res = (|| -> Result<(), parquet::errors::ParquetError> {
        // sometimes completed pages go through a spill store that hands out opaque, non-dense keys
        let mut opts = parquet::arrow::arrow_writer::ArrowWriterOptions::new().with_properties(cfg.props_for(&t.schema));
        if spill {
            let sh = std::sync::Arc::new(checks::spill::Shared::default());
            sh.fail_at.store(usize::MAX, std::sync::atomic::Ordering::SeqCst);
            opts = opts.with_page_store_factory(std::sync::Arc::new(checks::spill::Factory(sh)));
        }
        let mut w = ArrowWriter::try_new_with_options(&mut buf, t.schema.clone(), opts)?;
        for (at, len, flush) in &h {
            w.write(&t.batch.slice(*at, *len))?;
            ctx.step();
            if *flush {
                w.flush()?;
                ctx.probe("explicit_flush");
            }
        }
        w.close()?;
        Ok(())
    })();
    ctx.count("executions", 1);
    if let Err(e) = res {
        bail_v!(ctx, "write_failed", "parquet.arrow_writer/write", "the writer refused a schema / configuration it is documented to accept: {e}");
    }
    probes(ctx, &buf);
    let bs = *ctx.pick(&[1024usize, 1, 2, 3, 7, 100, 100_000], "c05.readbatch");
    let (schema, batches) = match read_back(ctx, buf, bs) {
        Ok(x) => x,
        Err(e) => bail_v!(ctx, "read_failed", "parquet.sync_reader/read", "the reader failed on the file the writer produced: {e}"),
    };
    ctx.count("executions", 1);
    compare(ctx, "parquet.roundtrip", &t, schema, &batches, bs)
}

/// Independent column writers as cooperative tasks: the scheduler decides which worker encodes its next
/// leaf and in which order the workers close.
fn parallel(ctx: &Ctx) -> R {
    let p = profile(ctx);
    let t = gen_table(ctx, &p);
    if t.schema.fields().iter().any(|f| zero_width(f.data_type())) {
        ctx.count("skipped", 1);
        ctx.count("skipped.zero_width_type", 1);
        return Ok(());
    }
    let cfg = PqCfg::gen(ctx);
    let h = history(ctx, t.rows.len());
    ctx.note("cfg", serde_json::json!(format!("{cfg:?}")));
    ctx.note("history", serde_json::json!(h));
    ctx.nontrivial();
    ctx.shape("parallel", h.len() as u64, t.rows.len() as u64);
    set_component("parquet.column_writers");
    let mut buf = Vec::new();
    let res = (|| -> Result<(), parquet::errors::ParquetError> {
        // (the documented way to obtain a file writer that embeds the Arrow schema)
        let w = ArrowWriter::try_new(&mut buf, t.schema.clone(), Some(cfg.props_for(&t.schema)))?;
        let (mut fw, factory) = w.into_serialized_writer()?;
        // row groups are cut by the harness where the history flushes (and at the end)
        let mut groups: Vec<Vec<(usize, usize)>> = vec![vec![]];
        for (at, len, flush) in &h {
            groups.last_mut().unwrap().push((*at, *len));
            if *flush {
                groups.push(vec![]);
            }
        }
        let mut rg_index = 0;
        for g in groups {
            if g.iter().map(|x| x.1).sum::<usize>() == 0 {
                continue;
            }
            let writers: Vec<ArrowColumnWriter> = factory.create_column_writers(rg_index)?;
            let n = writers.len();
            let mut workers: Vec<(Option<ArrowColumnWriter>, VecDeque<ArrowLeafColumn>, Option<ArrowColumnChunk>)> = writers.into_iter().map(|w| (Some(w), VecDeque::new(), None)).collect();
            // the producer: leaves of every slice, routed to the worker of their leaf column
            for (at, len) in &g {
                let slice = t.batch.slice(*at, *len);
                let mut k = 0;
                for (f, a) in t.schema.fields().iter().zip(slice.columns()) {
                    let a: ArrayRef = a.clone();
                    for leaf in compute_leaves(f, &a)? {
                        workers[k].1.push_back(leaf);
                        k += 1;
                    }
                }
                debug_assert_eq!(k, n);
            }
            // the scheduler: any worker with a pending leaf may run; a worker whose queue is empty may close
            loop {
                let runnable: Vec<usize> = (0..n).filter(|i| workers[*i].0.is_some()).collect();
                if runnable.is_empty() {
                    break;
                }
                let i = runnable[ctx.below(runnable.len(), "sched.worker")];
                ctx.step();
                if runnable.len() > 1 {
                    ctx.shape("sched", i as u64, runnable.len() as u64);
                }
                if let Some(leaf) = workers[i].1.pop_front() {
                    workers[i].0.as_mut().unwrap().write(&leaf)?;
                } else {
                    let w = workers[i].0.take().unwrap();
                    workers[i].2 = Some(w.close()?);
                    ctx.ev("worker.closed", i as u64, 0);
                }
            }
            let mut rgw = fw.next_row_group()?;
            for w in workers {
                w.2.unwrap().append_to_row_group(&mut rgw)?;
            }
            rgw.close()?;
            rg_index += 1;
            if n > 1 {
                ctx.probe("interleaved_column_writers");
            }
        }
        fw.close()?;
        Ok(())
    })();
    ctx.count("executions", 1);
    if let Err(e) = res {
        bail_v!(ctx, "write_failed", "parquet.column_writers/write", "the column writers refused a schema / configuration the writer is documented to accept: {e}");
    }
    probes(ctx, &buf);
    let bs = *ctx.pick(&[1024usize, 1, 2, 3, 7, 100, 100_000], "c05.readbatch");
    let (schema, batches) = match read_back(ctx, buf, bs) {
        Ok(x) => x,
        Err(e) => bail_v!(ctx, "read_failed", "parquet.sync_reader/read", "the reader failed on the file the column writers produced: {e}"),
    };
    ctx.count("executions", 1);
    compare(ctx, "parquet.parallel_roundtrip", &t, schema, &batches, bs)
}

/// Zero-width fixed-size types, kept apart: the writer's behaviour on them is a known finding.
fn zero_width_types(ctx: &Ctx) -> R {
    let mut p = Profile::flat(&[Leaf::Fsb, Leaf::I32]);
    p.fsl = true;
    p.max_depth = 1;
    p.max_cols = 2;
    let t = gen_table(ctx, &p);
    if !t.schema.fields().iter().any(|f| zero_width(f.data_type())) {
        return Ok(());
    }
    ctx.nontrivial();
    set_component("parquet.arrow_writer.zero_width");
    let mut buf = Vec::new();
    let res = catch_unwind(AssertUnwindSafe(|| -> Result<(), parquet::errors::ParquetError> {
        let mut w = ArrowWriter::try_new(&mut buf, t.schema.clone(), None)?;
        w.write(&t.batch)?;
        w.close()?;
        Ok(())
    }));
    ctx.count("executions", 1);
    match res {
        Err(_) => bail_v!(ctx, "panic", "parquet.arrow_writer.zero_width/panic", "ArrowWriter panicked on a schema with a zero-width fixed-size type: {}", gen::schema_sig(&t.schema, false)),
        Ok(Err(_)) => Ok(()), // a clean refusal is acceptable
        Ok(Ok(())) => {
            let (schema, batches) = match read_back(ctx, buf, 1024) {
                Ok(x) => x,
                Err(e) => bail_v!(ctx, "read_failed", "parquet.arrow_writer.zero_width/read", "the reader failed on the file the writer produced: {e}"),
            };
            compare(ctx, "parquet.arrow_writer.zero_width", &t, schema, &batches, 1024)
        }
    }
}

fn main() {
    simcore::main_with(
        "C05",
        &[
            Scenario { name: "serial", runs_quick: 110000, runs_thorough: 4_000_000, f: serial },
            Scenario { name: "parallel", runs_quick: 90000, runs_thorough: 3_000_000, f: parallel },
            Scenario { name: "zero_width", runs_quick: 300, runs_thorough: 3000, f: zero_width_types },
        ],
    );
}
