//! C04: IPC file, stream and Flight encoding round-trip every batch.

use checks::c04::*;
use checks::ipc::{ipc_profile, IpcCfg};
use simcore::{bail_v, Ctx, Scenario, R};

#[global_allocator]
static A: simcore::alloc::CapAlloc = simcore::alloc::CapAlloc;

fn projection(ctx: &Ctx, ncols: usize) -> Option<Vec<usize>> {
    if ncols == 0 || !ctx.chance(1, 2, "c04.project") {
        return None;
    }
    let mut v: Vec<usize> = (0..ncols).filter(|_| ctx.chance(1, 2, "c04.project.take")).collect();
    if v.is_empty() {
        v.push(ctx.below(ncols, "c04.project.one"));
    }
    Some(v)
}

fn probes(ctx: &Ctx, wl: &Wl04, cfg: &IpcCfg) {
    for h in &wl.hist {
        for e in &h.evos {
            match e {
                Evo::Extend if cfg.delta => ctx.probe("dict.delta_history"),
                Evo::Extend => ctx.probe("dict.extension_resent"),
                Evo::Replace | Evo::Shrink => ctx.probe("dict.replacement_history"),
                Evo::Same => ctx.probe("dict.same_pointer"),
                Evo::EqualCopy => ctx.probe("dict.equal_copy"),
                Evo::New => {}
            }
        }
        if h.place != Place::Top {
            ctx.probe("dict.nested_history_column");
        }
    }
    if wl.log.iter().any(|b| b.is_empty()) {
        ctx.probe("empty_batch");
    }
    if wl.schema.fields().is_empty() {
        ctx.probe("zero_column_schema");
    }
}

fn file(ctx: &Ctx) -> R {
    let mut p = ipc_profile(ctx);
    p.zero_cols = true;
    if !ctx.chance(1, 3, "c04.gen_dicts") {
        p.dict = false;
    }
    let wl = gen_wl(ctx, &p, 4, 12);
    let cfg = IpcCfg::gen(ctx, true);
    ctx.note("cfg", serde_json::json!(format!("{cfg:?}")));
    probes(ctx, &wl, &cfg);
    ctx.nontrivial();
    ctx.shape("file", wl.batches.len() as u64, wl.hist.iter().map(|h| h.evos.len() as u64).sum());
    let representable = wl.file_representable(cfg.delta);
    let bytes = match write_file(ctx, &wl, &cfg) {
        Ok(b) => b,
        Err(PathErr::Write(e)) | Err(PathErr::Read(e)) => {
            if !representable {
                // the file format cannot hold a replaced dictionary: refusing is the documented outcome
                ctx.probe("file.history_refused");
                return Ok(());
            }
            bail_v!(ctx, "write_failed", "ipc.file_writer/write", "the file writer failed on a history the file format can represent (short writes / Interrupted only on the sink): {e}");
        }
    };
    ctx.count("executions", 1);
    if !representable {
        ctx.probe("file.unrepresentable_history_accepted");
    }
    let proj = projection(ctx, wl.schema.fields().len());
    let got = match read_file(ctx, bytes, proj.clone(), cfg.buffered_reader) {
        Ok(g) => g,
        Err(PathErr::Write(e)) | Err(PathErr::Read(e)) => bail_v!(ctx, "read_failed", "ipc.file_reader/read", "the file reader failed on the bytes the writer produced (short reads / Interrupted only): {e}"),
    };
    ctx.count("executions", 1);
    if proj.is_some() {
        ctx.probe("projection");
    }
    compare_batches(ctx, "ipc.file", &wl, &got, proj.as_deref())
}

fn stream(ctx: &Ctx) -> R {
    let mut p = ipc_profile(ctx);
    p.zero_cols = true;
    let wl = gen_wl(ctx, &p, 4, 12);
    let cfg = IpcCfg::gen(ctx, false);
    ctx.note("cfg", serde_json::json!(format!("{cfg:?}")));
    probes(ctx, &wl, &cfg);
    ctx.nontrivial();
    ctx.shape("stream", wl.batches.len() as u64, wl.hist.iter().map(|h| h.evos.len() as u64).sum());
    let use_encoder = ctx.chance(1, 3, "c04.stream_encoder");
    let bytes = match if use_encoder { encode_stream(&wl, &cfg) } else { write_stream(ctx, &wl, &cfg) } {
        Ok(b) => b,
        Err(PathErr::Write(e)) | Err(PathErr::Read(e)) => bail_v!(ctx, "write_failed", if use_encoder { "ipc.stream_encoder/encode" } else { "ipc.stream_writer/write" }, "the stream writer failed (every dictionary history is representable in a stream): {e}"),
    };
    ctx.count("executions", 1);
    if use_encoder {
        ctx.probe("stream_encoder");
    }
    // pull reader, with projection
    let proj = projection(ctx, wl.schema.fields().len());
    let got = match read_stream(ctx, bytes.clone(), proj.clone(), cfg.buffered_reader) {
        Ok(g) => g,
        Err(PathErr::Write(e)) | Err(PathErr::Read(e)) => bail_v!(ctx, "read_failed", "ipc.stream_reader/read", "the stream reader failed on the bytes the writer produced: {e}"),
    };
    ctx.count("executions", 1);
    compare_batches(ctx, "ipc.stream", &wl, &got, proj.as_deref())?;
    // push decoder under a chunk schedule (dense unions: known C14 finding, misaligned offsets panic)
    if !wl.schema.fields().iter().any(|f| has_dense_union(f.data_type())) {
        let got = match decode_stream(ctx, &bytes)? {
            Ok(g) => g,
            Err(PathErr::Write(e)) | Err(PathErr::Read(e)) => bail_v!(ctx, "read_failed", "ipc.stream_decoder/decode", "the stream decoder failed on the bytes the writer produced: {e}"),
        };
        ctx.count("executions", 1);
        ctx.probe("stream_decoder");
        compare_batches(ctx, "ipc.stream_decoder", &wl, &got, None)?;
    }
    Ok(())
}

/// a union (not handled by the encoder's own sparse top-level arm) with a dictionary somewhere below it
fn union_with_dict(dt: &arrow_schema::DataType) -> bool {
    use arrow_schema::DataType::*;
    match dt {
        Union(ufs, _) => ufs.iter().any(|(_, f)| has_dict(f.data_type())),
        List(f) | LargeList(f) | ListView(f) | LargeListView(f) | FixedSizeList(f, _) | Map(f, _) => union_with_dict(f.data_type()),
        Struct(fs) => fs.iter().any(|f| union_with_dict(f.data_type())),
        Dictionary(_, v) => union_with_dict(v),
        RunEndEncoded(_, v) => union_with_dict(v.data_type()),
        _ => false,
    }
}

fn flight(ctx: &Ctx) -> R {
    let mut p = ipc_profile(ctx);
    p.zero_cols = false;
    let wl = gen_wl(ctx, &p, 4, 12);
    let mut cfg = IpcCfg::gen(ctx, false);
    cfg.legacy = false;
    let fc = FlightCfg::gen(ctx);
    ctx.note("cfg", serde_json::json!(format!("{cfg:?} {fc:?}")));
    probes(ctx, &wl, &cfg);
    ctx.nontrivial();
    ctx.shape("flight", wl.batches.len() as u64, fc.max_size as u64);
    let got = match flight_roundtrip(ctx, &wl, &cfg, &fc)? {
        Ok(g) => g,
        Err(PathErr::Write(e)) | Err(PathErr::Read(e)) => {
            // the one failure with a discriminating key of its own (known finding, DESIGN 11.4): hydration cannot cast a union that holds a dictionary
            let hydrating_union = !fc.resend && e.contains("cannot cast Union") && wl.schema.fields().iter().any(|f| union_with_dict(f.data_type()));
            let key = if hydrating_union { "flight.encode_decode/hydrate_union_with_dictionary" } else { "flight.encode_decode/error" };
            bail_v!(ctx, "roundtrip_failed", key, "encoder -> channel -> decoder failed: {e}")
        }
    };
    ctx.count("executions", 1);
    if fc.resend {
        ctx.probe("flight.resend");
    } else {
        ctx.probe("flight.hydrate");
    }
    compare_flight(ctx, "flight.encode_decode", &wl, &got.got, !fc.resend)
}

fn main() {
    simcore::main_with(
        "C04",
        &[
            Scenario { name: "file", runs_quick: 150000, runs_thorough: 4_000_000, f: file },
            Scenario { name: "stream", runs_quick: 120000, runs_thorough: 3_000_000, f: stream },
            Scenario { name: "flight", runs_quick: 100000, runs_thorough: 2_500_000, f: flight },
        ],
    );
}
