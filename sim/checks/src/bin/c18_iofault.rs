//! C18: truncation and I/O faults are reported, never turned into wrong rows.

use checks::avro::{avro_profile, AvroFmt};
use checks::c18::run_all;
use checks::ipc::{ipc_profile, IpcCfg, IpcFmt};
use checks::pq::{pq_profile_basic, PqAsyncFmt, PqCfg, PqFmt};
use checks::text::{csv_profile, json_profile, CsvFmt, JsonFmt};
use checks::{gen_workload, gen_workload_from};
use simcore::{Ctx, Scenario, R};

#[global_allocator]
static A: simcore::alloc::CapAlloc = simcore::alloc::CapAlloc;

fn has_dict(dt: &arrow_schema::DataType) -> bool {
    use arrow_schema::DataType::*;
    match dt {
        Dictionary(_, _) => true,
        List(f) | LargeList(f) | ListView(f) | LargeListView(f) | FixedSizeList(f, _) | Map(f, _) => has_dict(f.data_type()),
        Struct(fs) => fs.iter().any(|f| has_dict(f.data_type())),
        Union(ufs, _) => ufs.iter().any(|(_, f)| has_dict(f.data_type())),
        RunEndEncoded(_, v) => has_dict(v.data_type()),
        _ => false,
    }
}

fn ipc(ctx: &Ctx, file: bool) -> R {
    ipc_rows(ctx, file, 12)
}
fn ipc_rows(ctx: &Ctx, file: bool, max_rows: usize) -> R {
    let mut p = ipc_profile(ctx);
    if max_rows > 100 {
        p.max_cols = 3;
        p.max_depth = p.max_depth.min(1);
    }
    let mut wl = gen_workload_from(ctx, &p, 3, if max_rows > 100 { 250 } else { 0 }, max_rows, true);
    if file && wl.schema.fields().iter().any(|f| has_dict(f.data_type())) {
        // the file format cannot represent dictionary replacement between batches
        wl.batches.truncate(1);
        wl.logical.truncate(1);
    }
    let cfg = IpcCfg::gen(ctx, file);
    run_all(ctx, &IpcFmt { wl, cfg })
}
fn ipc_file(ctx: &Ctx) -> R {
    ipc(ctx, true)
}
fn ipc_stream(ctx: &Ctx) -> R {
    ipc(ctx, false)
}
/// Batches of several hundred rows: the writers' internal 8 KiB buffers (csv, json, std BufWriter) fill and are
/// handed to the sink in the middle of a write() call, so a fault lands on an intermediate transfer.
fn ipc_big(ctx: &Ctx) -> R {
    ipc_rows(ctx, ctx.chance(1, 2, "ipcbig.file"), 600)
}
fn csv_big(ctx: &Ctx) -> R {
    csv_rows(ctx, false, 600)
}
fn json_big(ctx: &Ctx) -> R {
    let mut p = json_profile(ctx);
    p.max_cols = 3;
    let wl = gen_workload_from(ctx, &p, 2, 250, 600, true);
    let cfg = JsonFmt::gen_cfg(ctx);
    run_all(ctx, &JsonFmt { wl, cfg })
}
fn avro_big(ctx: &Ctx) -> R {
    let mut p = avro_profile(ctx);
    p.max_cols = 3;
    let wl = gen_workload_from(ctx, &p, 2, 250, 600, true);
    let cfg = AvroFmt::gen_cfg(ctx, true);
    run_all(ctx, &AvroFmt::new(wl, cfg))
}
fn csv_with(ctx: &Ctx, into_inner: bool) -> R {
    csv_rows(ctx, into_inner, 12)
}
fn csv_rows(ctx: &Ctx, into_inner: bool, max_rows: usize) -> R {
    let mut p = csv_profile(ctx);
    if max_rows > 100 {
        p.max_cols = 3;
    }
    let wl = gen_workload_from(ctx, &p, 3, if max_rows > 100 { 250 } else { 0 }, max_rows, true);
    let cfg = CsvFmt::gen_cfg(ctx);
    run_all(ctx, &CsvFmt { wl, cfg, into_inner })
}
fn csv(ctx: &Ctx) -> R {
    csv_with(ctx, false)
}
/// Same workloads, but the caller recovers the sink with `Writer::into_inner` (kept apart so that the
/// known panic of that call does not end every CSV run at its first sink fault).
fn csv_into_inner(ctx: &Ctx) -> R {
    csv_with(ctx, true)
}
fn json(ctx: &Ctx) -> R {
    let p = json_profile(ctx);
    let wl = gen_workload(ctx, &p, 3, 10, true);
    let cfg = JsonFmt::gen_cfg(ctx);
    run_all(ctx, &JsonFmt { wl, cfg })
}
fn avro(ctx: &Ctx, ocf: bool) -> R {
    let p = avro_profile(ctx);
    let wl = gen_workload(ctx, &p, 3, 10, true);
    let cfg = AvroFmt::gen_cfg(ctx, ocf);
    run_all(ctx, &AvroFmt::new(wl, cfg))
}
fn avro_ocf(ctx: &Ctx) -> R {
    avro(ctx, true)
}
fn avro_soe(ctx: &Ctx) -> R {
    avro(ctx, false)
}
fn parquet(ctx: &Ctx) -> R {
    let p = pq_profile_basic(ctx);
    let wl = gen_workload(ctx, &p, 3, 24, true);
    let cfg = PqCfg::gen(ctx);
    let flush_after = (0..wl.batches.len()).filter(|_| ctx.chance(1, 4, "pq.flush")).collect();
    run_all(ctx, &PqFmt { wl, cfg, flush_after })
}

/// The asynchronous writer / stream over the tokio faces of the same devices, with seeded `Pending`s.
fn parquet_async(ctx: &Ctx) -> R {
    if ctx.chance(1, 3, "pqasync.big") {
        // row groups above the internal 8 KiB buffer: the async sink is written in the middle of write() / flush()
        let inner = big_pq(ctx);
        let pending_rate = *ctx.pick(&[0u64, 3, 8], "pqasync.pending");
        return run_all(ctx, &PqAsyncFmt { inner, pending_rate });
    }
    let p = pq_profile_basic(ctx);
    let wl = gen_workload(ctx, &p, 3, 24, true);
    let cfg = PqCfg::gen(ctx);
    let flush_after = (0..wl.batches.len()).filter(|_| ctx.chance(1, 4, "pq.flush")).collect();
    let pending_rate = *ctx.pick(&[0u64, 3, 8], "pqasync.pending");
    run_all(ctx, &PqAsyncFmt { inner: PqFmt { wl, cfg, flush_after }, pending_rate })
}

// ---------------------------------------------------------------------------------------------
// PageStore (the writer's spill seam): put / take fail at call k, keys are handed out non-densely
// ---------------------------------------------------------------------------------------------

use checks::spill;

fn parquet_spill(ctx: &Ctx) -> R {
    use parquet::arrow::arrow_writer::ArrowWriterOptions;
    use parquet::arrow::ArrowWriter;
    use simcore::bail_v;
    use std::sync::atomic::Ordering;
    use std::sync::Arc;
    let p = pq_profile_basic(ctx);
    let wl = gen_workload(ctx, &p, 3, 24, true);
    let cfg = PqCfg::gen(ctx);
    let flush_after: Vec<usize> = (0..wl.batches.len()).filter(|_| ctx.chance(1, 4, "pq.flush")).collect();
    simcore::runner::set_component("parquet.arrow_writer.spill");
    // one write: Ok(bytes) or the first error
    let write = |fail_at: usize, persistent: bool| -> (Result<(), String>, Vec<u8>, Arc<spill::Shared>) {
        let sh = Arc::new(spill::Shared::default());
        sh.fail_at.store(fail_at, Ordering::SeqCst);
        sh.persistent.store(persistent, Ordering::SeqCst);
        let mut buf = Vec::new();
        let res = (|| -> Result<(), parquet::errors::ParquetError> {
            let opts = ArrowWriterOptions::new().with_properties(cfg.props_for(&wl.schema)).with_page_store_factory(Arc::new(spill::Factory(sh.clone())));
            let mut w = ArrowWriter::try_new_with_options(&mut buf, wl.schema.clone(), opts)?;
            for (i, b) in wl.batches.iter().enumerate() {
                w.write(b)?;
                if flush_after.contains(&i) {
                    w.flush()?;
                }
            }
            w.close()?;
            Ok(())
        })();
        (res.map_err(|e| e.to_string()), buf, sh)
    };
    // references: the default in-memory store, and the fault-free spill store (must produce the same file)
    let plain = {
        let sink = simcore::io::SimSink::new(ctx, simcore::io::Plan::none());
        let f = PqFmt { wl: checks::Workload { schema: wl.schema.clone(), batches: wl.batches.clone(), logical: vec![] }, cfg: cfg.clone(), flush_after: flush_after.clone() };
        match std::panic::catch_unwind(std::panic::AssertUnwindSafe(|| checks::Fmt::write(&f, ctx, sink.clone(), checks::Post::Drop))) {
            Ok(w) if w.api_ok => sink.data(),
            _ => {
                ctx.count("skipped", 1);
                ctx.count("skipped.reference_write_failed", 1);
                return Ok(());
            }
        }
    };
    let (r0, bytes0, sh0) = write(usize::MAX, false);
    ctx.count("executions", 1);
    if let Err(e) = r0 {
        bail_v!(ctx, "write_failed", "parquet.arrow_writer.spill/fault_free", "the writer failed with a fault-free page store although it succeeds with the in-memory one: {e}");
    }
    if bytes0 != plain {
        bail_v!(ctx, "wrong_bytes", "parquet.arrow_writer.spill/output", "fault-free page store: the file differs from the one written with the in-memory store at byte {} ({} vs {} bytes)", simcore::io::first_diff(&bytes0, &plain), bytes0.len(), plain.len());
    }
    let n = sh0.calls.load(Ordering::SeqCst);
    ctx.nontrivial();
    ctx.shape("parquet.spill", n as u64, plain.len() as u64);
    ctx.count("spill_calls_enumerated", n as u64);
    if sh0.takes.load(Ordering::SeqCst) > 0 {
        ctx.probe("spill.pages_taken_back");
    }
    for j in ctx.sweep("p", n * 2) {
        ctx.set_at("p", j as u64);
        let (k, persistent) = (j / 2, j % 2 == 1);
        let (r, bytes, sh) = write(k, persistent);
        ctx.count("executions", 1);
        ctx.fault("spill.error", k as u64);
        let fired = sh.fired.load(Ordering::SeqCst) > 0;
        if fired && r.is_ok() {
            bail_v!(ctx, "swallowed_error", "parquet.arrow_writer.spill/call_k", "the page store failed at call {k} (persistent={persistent}) but every writer API call returned Ok ({} of {} bytes in the sink)", bytes.len(), plain.len());
        }
        if r.is_ok() && bytes != plain {
            bail_v!(ctx, "wrong_bytes", "parquet.arrow_writer.spill/output", "no store fault fired, yet the file differs from the reference at byte {}", simcore::io::first_diff(&bytes, &plain));
        }
        if r.is_err() && !simcore::io::is_prefix(&bytes, &plain) {
            bail_v!(ctx, "not_a_prefix", "parquet.arrow_writer.spill/prefix", "after a page store failure at call {k} the sink holds {} bytes that are not a prefix of the fault-free file (first difference at {})", bytes.len(), simcore::io::first_diff(&bytes, &plain));
        }
    }
    ctx.clear_at("p");
    Ok(())
}

/// Values large enough that single `write_all` calls exceed std's 8 KiB `BufWriter` capacity (the
/// buffer is then bypassed and the sink sees the writer's own call pattern).
fn parquet_big(ctx: &Ctx) -> R {
    let f = big_pq(ctx);
    run_all(ctx, &f)
}
fn big_pq(ctx: &Ctx) -> PqFmt {
    let mut p = pq_profile_basic(ctx);
    p.leaves = vec![gen::types_api::Leaf::Utf8, gen::types_api::Leaf::Binary, gen::types_api::Leaf::LargeUtf8, gen::types_api::Leaf::I64, gen::types_api::Leaf::Utf8View];
    p.max_str_len = 6000;
    p.long_str_rate = 5;
    p.max_depth = 1;
    p.max_cols = 2;
    let wl = gen_workload(ctx, &p, 3, 40, false);
    let mut cfg = PqCfg::gen(ctx);
    cfg.data_page_limit = 1 << 20;
    cfg.dict_page_limit = 1 << 20;
    cfg.page_rows = 20000;
    // one row group written by the finishing call, or several written in the middle of write() / flush() calls
    // (only then can a sink fault hit a call that is not the last one the caller makes)
    cfg.rg_rows = *ctx.pick(&[1usize << 20, 16, 7], "pqbig.rg_rows");
    cfg.write_batch = 1024;
    if !ctx.chance(1, 4, "pqbig.compressed") {
        cfg.codec = 0;
    }
    let flush_after = (0..wl.batches.len()).filter(|_| ctx.chance(1, 3, "pqbig.flush")).collect();
    PqFmt { wl, cfg, flush_after }
}

fn main() {
    simcore::main_with(
        "C18",
        &[
            Scenario { name: "ipc_file", runs_quick: 250, runs_thorough: 6000, f: ipc_file },
            Scenario { name: "ipc_stream", runs_quick: 250, runs_thorough: 6000, f: ipc_stream },
            Scenario { name: "csv", runs_quick: 250, runs_thorough: 6000, f: csv },
            Scenario { name: "csv_into_inner", runs_quick: 60, runs_thorough: 600, f: csv_into_inner },
            Scenario { name: "json", runs_quick: 250, runs_thorough: 6000, f: json },
            Scenario { name: "avro_ocf", runs_quick: 250, runs_thorough: 6000, f: avro_ocf },
            Scenario { name: "avro_soe", runs_quick: 150, runs_thorough: 3000, f: avro_soe },
            Scenario { name: "parquet", runs_quick: 150, runs_thorough: 4000, f: parquet },
            Scenario { name: "parquet_big", runs_quick: 40, runs_thorough: 800, f: parquet_big },
            Scenario { name: "ipc_big", runs_quick: 30, runs_thorough: 600, f: ipc_big },
            Scenario { name: "csv_big", runs_quick: 30, runs_thorough: 600, f: csv_big },
            Scenario { name: "json_big", runs_quick: 30, runs_thorough: 600, f: json_big },
            Scenario { name: "avro_big", runs_quick: 30, runs_thorough: 600, f: avro_big },
            Scenario { name: "parquet_async", runs_quick: 120, runs_thorough: 3000, f: parquet_async },
            Scenario { name: "parquet_spill", runs_quick: 200, runs_thorough: 5000, f: parquet_spill },
        ],
    );
}
