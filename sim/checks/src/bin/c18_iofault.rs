//! C18: truncation and I/O faults are reported, never turned into wrong rows.

use checks::avro::{avro_profile, AvroFmt};
use checks::c18::run_all;
use checks::ipc::{ipc_profile, IpcCfg, IpcFmt};
use checks::pq::{pq_profile_basic, PqCfg, PqFmt};
use checks::text::{csv_profile, json_profile, CsvFmt, JsonFmt};
use checks::gen_workload;
use simcore::{Ctx, Scenario, R};

#[global_allocator]
static A: simcore::alloc::CapAlloc = simcore::alloc::CapAlloc;

fn has_dict(dt: &arrow_schema::DataType) -> bool {
    use arrow_schema::DataType::*;
    match dt {
        Dictionary(_, _) => true,
        List(f) | LargeList(f) | ListView(f) | LargeListView(f) | FixedSizeList(f, _) | Map(f, _) => has_dict(f.data_type()),
        Struct(fs) => fs.iter().any(|f| has_dict(f.data_type())),
        Union(ufs, _) => ufs.iter().any(|(_, f)| has_dict(f.data_type())),
        RunEndEncoded(_, v) => has_dict(v.data_type()),
        _ => false,
    }
}

fn ipc(ctx: &Ctx, file: bool) -> R {
    let p = ipc_profile(ctx);
    let mut wl = gen_workload(ctx, &p, 3, 12, true);
    if file && wl.schema.fields().iter().any(|f| has_dict(f.data_type())) {
        // the file format cannot represent dictionary replacement between batches
        wl.batches.truncate(1);
        wl.logical.truncate(1);
    }
    let cfg = IpcCfg::gen(ctx, file);
    run_all(ctx, &IpcFmt { wl, cfg })
}
fn ipc_file(ctx: &Ctx) -> R {
    ipc(ctx, true)
}
fn ipc_stream(ctx: &Ctx) -> R {
    ipc(ctx, false)
}
fn csv_with(ctx: &Ctx, into_inner: bool) -> R {
    let p = csv_profile(ctx);
    let wl = gen_workload(ctx, &p, 3, 12, true);
    let cfg = CsvFmt::gen_cfg(ctx);
    run_all(ctx, &CsvFmt { wl, cfg, into_inner })
}
fn csv(ctx: &Ctx) -> R {
    csv_with(ctx, false)
}
/// Same workloads, but the caller recovers the sink with `Writer::into_inner` (kept apart so that the
/// known panic of that call does not end every CSV run at its first sink fault).
fn csv_into_inner(ctx: &Ctx) -> R {
    csv_with(ctx, true)
}
fn json(ctx: &Ctx) -> R {
    let p = json_profile(ctx);
    let wl = gen_workload(ctx, &p, 3, 10, true);
    let cfg = JsonFmt::gen_cfg(ctx);
    run_all(ctx, &JsonFmt { wl, cfg })
}
fn avro(ctx: &Ctx, ocf: bool) -> R {
    let p = avro_profile(ctx);
    let wl = gen_workload(ctx, &p, 3, 10, true);
    let cfg = AvroFmt::gen_cfg(ctx, ocf);
    run_all(ctx, &AvroFmt::new(wl, cfg))
}
fn avro_ocf(ctx: &Ctx) -> R {
    avro(ctx, true)
}
fn avro_soe(ctx: &Ctx) -> R {
    avro(ctx, false)
}
fn parquet(ctx: &Ctx) -> R {
    let p = pq_profile_basic(ctx);
    let wl = gen_workload(ctx, &p, 3, 24, true);
    let cfg = PqCfg::gen(ctx);
    let flush_after = (0..wl.batches.len()).filter(|_| ctx.chance(1, 4, "pq.flush")).collect();
    run_all(ctx, &PqFmt { wl, cfg, flush_after })
}

/// Values large enough that single `write_all` calls exceed std's 8 KiB `BufWriter` capacity (the
/// buffer is then bypassed and the sink sees the writer's own call pattern).
fn parquet_big(ctx: &Ctx) -> R {
    let mut p = pq_profile_basic(ctx);
    p.leaves = vec![gen::types_api::Leaf::Utf8, gen::types_api::Leaf::Binary, gen::types_api::Leaf::LargeUtf8, gen::types_api::Leaf::I64, gen::types_api::Leaf::Utf8View];
    p.max_str_len = 6000;
    p.long_str_rate = 5;
    p.max_depth = 1;
    p.max_cols = 2;
    let wl = gen_workload(ctx, &p, 2, 40, false);
    let mut cfg = PqCfg::gen(ctx);
    cfg.data_page_limit = 1 << 20;
    cfg.dict_page_limit = 1 << 20;
    cfg.page_rows = 20000;
    cfg.rg_rows = 1 << 20;
    cfg.write_batch = 1024;
    if !ctx.chance(1, 4, "pqbig.compressed") {
        cfg.codec = 0;
    }
    run_all(ctx, &PqFmt { wl, cfg, flush_after: vec![] })
}

fn main() {
    simcore::main_with(
        "C18",
        &[
            Scenario { name: "ipc_file", runs_quick: 250, runs_thorough: 6000, f: ipc_file },
            Scenario { name: "ipc_stream", runs_quick: 250, runs_thorough: 6000, f: ipc_stream },
            Scenario { name: "csv", runs_quick: 250, runs_thorough: 6000, f: csv },
            Scenario { name: "csv_into_inner", runs_quick: 60, runs_thorough: 600, f: csv_into_inner },
            Scenario { name: "json", runs_quick: 250, runs_thorough: 6000, f: json },
            Scenario { name: "avro_ocf", runs_quick: 250, runs_thorough: 6000, f: avro_ocf },
            Scenario { name: "avro_soe", runs_quick: 150, runs_thorough: 3000, f: avro_soe },
            Scenario { name: "parquet", runs_quick: 150, runs_thorough: 4000, f: parquet },
            Scenario { name: "parquet_big", runs_quick: 40, runs_thorough: 800, f: parquet_big },
        ],
    );
}
