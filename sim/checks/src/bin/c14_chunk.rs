//! C14: push decoders are independent of how their input is cut into chunks.
//!
//! One run = one generated workload written by the real writer (fault-free) and decoded by the real
//! push decoder under many delivery schedules: the whole input at once (reference), every single
//! split point, one byte at a time, and tape-chosen multi-splits with empty chunks where the protocol
//! makes them no-ops. A tape-chosen prefix of the input is also decoded (invalid input: the outcome
//! must not depend on the schedule either).

use arrow_array::RecordBatch;
use arrow_buffer::Buffer;
use checks::ipc::{ipc_profile, IpcCfg, IpcFmt};
use checks::text::{csv_profile, json_profile, CsvFmt, JsonFmt};
use checks::{gen_workload, Fmt, Post, Row};
use simcore::io::{Plan, SimSink};
use simcore::runner::set_component;
use simcore::{bail_v, Ctx, Scenario, R};
use std::panic::{catch_unwind, AssertUnwindSafe};
use std::sync::Arc;

#[global_allocator]
static A: simcore::alloc::CapAlloc = simcore::alloc::CapAlloc;

const STEP_BUDGET: usize = 2_000_000;

#[derive(Default)]
struct DOut {
    rows: Vec<Row>,
    batch_rows: Vec<usize>,
    err: Option<String>,
    invalid: Option<String>,
    schema_sig: Option<String>,
    hang: bool,
}

impl DOut {
    fn take(&mut self, b: RecordBatch) -> bool {
        if let Err(e) = gen::validate_batch(&b) {
            self.invalid = Some(e);
            return false;
        }
        if self.schema_sig.is_none() {
            self.schema_sig = Some(gen::schema_sig(&b.schema(), false));
        }
        self.batch_rows.push(b.num_rows());
        self.rows.extend(gen::rows_of(&b));
        true
    }
}

/// The input as the producer delivers it: consecutive chunks, some of them possibly empty.
struct Chunks<'a> {
    data: &'a [u8],
    /// ascending end offsets of the chunks (the last one is data.len()); repeated offsets are empty chunks
    ends: Vec<usize>,
    cur: usize,
    pos: usize,
}

impl<'a> Chunks<'a> {
    fn new(data: &'a [u8], cuts: &[usize]) -> Self {
        let mut ends: Vec<usize> = cuts.iter().copied().filter(|c| *c <= data.len()).collect();
        ends.push(data.len());
        ends.sort_unstable();
        Chunks { data, ends, cur: 0, pos: 0 }
    }
    /// `BufRead::fill_buf`: the unconsumed rest of the current chunk, moving on to the next non-empty chunk
    /// when it is used up; empty only at the end of the input.
    fn fill_buf(&mut self) -> &'a [u8] {
        while self.cur < self.ends.len() && self.pos >= self.ends[self.cur] {
            self.cur += 1;
        }
        if self.cur >= self.ends.len() {
            return &[];
        }
        &self.data[self.pos..self.ends[self.cur]]
    }
    fn consume(&mut self, n: usize) {
        self.pos += n;
    }
    /// Chunks one by one, empty ones included.
    fn raw(&self) -> Vec<&'a [u8]> {
        let mut out = Vec::with_capacity(self.ends.len());
        let mut s = 0;
        for e in &self.ends {
            out.push(&self.data[s..*e]);
            s = *e;
        }
        out
    }
}

trait Dec {
    fn name(&self) -> &'static str;
    fn batch_size(&self) -> Option<usize>;
    /// whether the API fixes the batch boundaries (so the batch sequence itself must be equal)
    fn fixed_boundaries(&self) -> bool;
    fn decode(&self, data: &[u8], cuts: &[usize]) -> DOut;
}

struct CsvDec<'a>(&'a CsvFmt);
impl Dec for CsvDec<'_> {
    fn name(&self) -> &'static str {
        "csv.decoder"
    }
    fn batch_size(&self) -> Option<usize> {
        Some(self.0.cfg.batch_size)
    }
    fn fixed_boundaries(&self) -> bool {
        true
    }
    fn decode(&self, data: &[u8], cuts: &[usize]) -> DOut {
        set_component("csv.decoder");
        let mut out = DOut::default();
        let mut dec = self.0.reader_builder().build_decoder();
        let mut src = Chunks::new(data, cuts);
        let mut steps = 0;
        // the loop documented on arrow_csv::reader::Decoder (an empty buffer is the EOF signal)
        loop {
            loop {
                steps += 1;
                if steps > STEP_BUDGET {
                    out.hang = true;
                    return out;
                }
                let buf = src.fill_buf();
                match dec.decode(buf) {
                    Err(e) => {
                        out.err = Some(e.to_string());
                        return out;
                    }
                    Ok(0) => break,
                    Ok(n) => src.consume(n),
                }
            }
            match dec.flush() {
                Err(e) => {
                    out.err = Some(e.to_string());
                    return out;
                }
                Ok(None) => return out,
                Ok(Some(b)) => {
                    if !out.take(b) {
                        return out;
                    }
                }
            }
        }
    }
}

struct JsonDec<'a>(&'a JsonFmt);
impl Dec for JsonDec<'_> {
    fn name(&self) -> &'static str {
        "json.decoder"
    }
    fn batch_size(&self) -> Option<usize> {
        Some(self.0.cfg.batch_size)
    }
    fn fixed_boundaries(&self) -> bool {
        true
    }
    fn decode(&self, data: &[u8], cuts: &[usize]) -> DOut {
        set_component("json.decoder");
        let mut out = DOut::default();
        let mut dec = match self.0.reader_builder().build_decoder() {
            Ok(d) => d,
            Err(e) => {
                out.err = Some(format!("build_decoder: {e}"));
                return out;
            }
        };
        let mut src = Chunks::new(data, cuts);
        let mut steps = 0;
        // the loop documented on arrow_json::reader::Decoder
        loop {
            loop {
                steps += 1;
                if steps > STEP_BUDGET {
                    out.hang = true;
                    return out;
                }
                let buf = src.fill_buf();
                if buf.is_empty() {
                    break;
                }
                let read = buf.len();
                match dec.decode(buf) {
                    Err(e) => {
                        out.err = Some(e.to_string());
                        return out;
                    }
                    Ok(n) => {
                        src.consume(n);
                        if n != read {
                            break;
                        }
                    }
                }
            }
            match dec.flush() {
                Err(e) => {
                    out.err = Some(e.to_string());
                    return out;
                }
                Ok(None) => return out,
                Ok(Some(b)) => {
                    if !out.take(b) {
                        return out;
                    }
                }
            }
        }
    }
}

struct IpcDec;
impl Dec for IpcDec {
    fn name(&self) -> &'static str {
        "ipc.stream_decoder"
    }
    fn batch_size(&self) -> Option<usize> {
        None
    }
    fn fixed_boundaries(&self) -> bool {
        true
    }
    fn decode(&self, data: &[u8], cuts: &[usize]) -> DOut {
        set_component("ipc.stream_decoder");
        let mut out = DOut::default();
        let mut dec = arrow_ipc::reader::StreamDecoder::new();
        let src = Chunks::new(data, cuts);
        let mut steps = 0;
        // the loop documented on StreamDecoder::decode; an empty chunk is a no-op by construction
        for chunk in src.raw() {
            let mut buf = Buffer::from(chunk.to_vec());
            while !buf.is_empty() {
                steps += 1;
                if steps > STEP_BUDGET {
                    out.hang = true;
                    return out;
                }
                match dec.decode(&mut buf) {
                    Err(e) => {
                        out.err = Some(e.to_string());
                        return out;
                    }
                    Ok(None) => {}
                    Ok(Some(b)) => {
                        if !out.take(b) {
                            return out;
                        }
                    }
                }
            }
        }
        if let Err(e) = dec.finish() {
            out.err = Some(e.to_string());
        }
        if out.schema_sig.is_none() {
            out.schema_sig = dec.schema().map(|s| gen::schema_sig(&s, false));
        }
        out
    }
}

fn run_dec(d: &dyn Dec, data: &[u8], cuts: &[usize]) -> Result<DOut, ()> {
    catch_unwind(AssertUnwindSafe(|| d.decode(data, cuts))).map_err(|_| ())
}

/// Compare one schedule against the one-chunk reference.
fn compare(ctx: &Ctx, d: &dyn Dec, what: &str, input: &str, rf: &DOut, got: &DOut, cuts: &[usize]) -> R {
    let key = format!("{}/{what}.{input}", d.name());
    let cuts_s = || format!("{:?}", &cuts[..cuts.len().min(12)]);
    if got.hang {
        bail_v!(ctx, "hang", &key, "decoder made no progress within {STEP_BUDGET} driver steps (cuts {})", cuts_s());
    }
    if let Some(e) = &got.invalid {
        bail_v!(ctx, "invalid_array", &key, "decoder emitted an invalid batch: {e} (cuts {})", cuts_s());
    }
    if rf.err.is_some() != got.err.is_some() {
        bail_v!(ctx, "outcome_depends_on_chunking", &key, "one chunk: {:?}; cuts {}: {:?} ({} vs {} rows)", rf.err, cuts_s(), got.err, rf.rows.len(), got.rows.len());
    }
    if rf.err.is_none() {
        if got.rows != rf.rows {
            bail_v!(ctx, "rows_depend_on_chunking", &key, "cuts {}: {} rows vs {} in one chunk: {}", cuts_s(), got.rows.len(), rf.rows.len(), gen::diff_rows(&rf.rows, &got.rows).unwrap_or_default());
        }
        if got.schema_sig != rf.schema_sig {
            bail_v!(ctx, "schema_depends_on_chunking", &key, "cuts {}: schema {:?} vs {:?}", cuts_s(), got.schema_sig, rf.schema_sig);
        }
        if d.fixed_boundaries() && got.batch_rows != rf.batch_rows {
            bail_v!(ctx, "batches_depend_on_chunking", &key, "cuts {}: batch sizes {:?} vs {:?}", cuts_s(), got.batch_rows, rf.batch_rows);
        }
    } else {
        // an error found at flush discards that batch: only the prefix relation is required
        let (a, b) = if got.rows.len() <= rf.rows.len() { (&got.rows, &rf.rows) } else { (&rf.rows, &got.rows) };
        if a[..] != b[..a.len()] {
            bail_v!(ctx, "rows_depend_on_chunking", &key, "both schedules fail, but the rows emitted before the error disagree (cuts {})", cuts_s());
        }
    }
    if let Some(bs) = d.batch_size() {
        if let Some(big) = got.batch_rows.iter().find(|n| **n > bs) {
            bail_v!(ctx, "batch_too_large", &key, "a batch of {big} rows exceeds batch_size {bs} (cuts {})", cuts_s());
        }
    }
    Ok(())
}

fn exec(ctx: &Ctx, d: &dyn Dec, what: &str, input: &str, data: &[u8], rf: &DOut, cuts: &[usize]) -> R {
    ctx.count("executions", 1);
    ctx.count(&format!("fault.chunking.{what}"), 1);
    // a panic in the decoder unwinds to the runner, which attributes it to the component
    let got = d.decode(data, cuts);
    compare(ctx, d, what, input, rf, &got, cuts)
}

/// All schedules over one input.
fn schedules(ctx: &Ctx, d: &dyn Dec, input: &'static str, data: &[u8], pull_rows: Option<&[Row]>) -> R<bool> {
    let n = data.len();
    let rf = match run_dec(d, data, &[]) {
        Ok(r) => r,
        Err(()) => {
            ctx.count("skipped", 1);
            ctx.count("skipped.reference_panicked", 1);
            return Ok(false);
        }
    };
    ctx.count("executions", 1);
    if rf.hang || rf.invalid.is_some() {
        ctx.count("skipped", 1);
        ctx.count("skipped.reference_unusable", 1);
        return Ok(false);
    }
    ctx.ev(input, n as u64, rf.rows.len() as u64);
    ctx.ev("ref.outcome", rf.err.is_some() as u64, rf.batch_rows.len() as u64);
    if let (Some(pull), None) = (pull_rows, &rf.err) {
        if rf.rows[..] != pull[..] {
            bail_v!(ctx, "differs_from_pull_reader", &format!("{}/one_chunk.{input}", d.name()), "push decoder returned {} rows, the pull reader {}: {}", rf.rows.len(), pull.len(), gen::diff_rows(pull, &rf.rows).unwrap_or_default());
        }
    }
    if rf.err.is_some() {
        ctx.probe("reference_is_error");
    }
    // every single split point (stride for long inputs)
    let stride = (n / 3000).max(1);
    let points: Vec<usize> = (1..n).step_by(stride).collect();
    let label_s: &str = if input == "valid" { "s" } else { "ts" };
    for j in ctx.sweep(label_s, points.len()) {
        ctx.set_at(label_s, j as u64);
        exec(ctx, d, "split", input, data, &rf, &[points[j]])?;
    }
    ctx.clear_at(label_s);
    // one byte at a time
    let label_b: &str = if input == "valid" { "b1" } else { "tb1" };
    if n <= 6000 && ctx.part(label_b) {
        let cuts: Vec<usize> = (1..n).collect();
        exec(ctx, d, "bytewise", input, data, &rf, &cuts)?;
    }
    // tape-chosen multi-splits, with empty chunks (repeated cut points) where they are no-ops
    let label_m: &str = if input == "valid" { "m" } else { "tm" };
    if n >= 2 && ctx.part(label_m) {
        let rounds = 1 + ctx.below(6, "multi.rounds");
        for _ in 0..rounds {
            let k = 1 + ctx.size(24, "multi.cuts");
            let mut cuts: Vec<usize> = (0..k).map(|_| if ctx.chance(1, 8, "multi.dup") { 0 } else { 1 + ctx.below(n - 1, "multi.at") }).collect();
            // `0` stands for "repeat the previous cut": an empty chunk in the middle of the stream
            for i in 0..cuts.len() {
                if cuts[i] == 0 {
                    cuts[i] = if i > 0 { cuts[i - 1] } else { 1 };
                }
            }
            cuts.sort_unstable();
            if d.name() == "csv.decoder" {
                // for CSV an empty buffer is the documented end-of-input signal, never sent mid-stream
                cuts.dedup();
            }
            ctx.shape("multi", cuts.len() as u64, cuts.iter().fold(0u64, |h, c| h.wrapping_mul(31).wrapping_add(*c as u64)));
            exec(ctx, d, "multi", input, data, &rf, &cuts)?;
        }
    }
    Ok(true)
}

fn run_format(ctx: &Ctx, f: &dyn Fmt, d: &dyn Dec, truncation_is_invalid: bool) -> R {
    ctx.note("format", f.describe());
    let sink = SimSink::new(ctx, Plan::none());
    let w = match catch_unwind(AssertUnwindSafe(|| f.write(ctx, sink.clone(), Post::IntoInner))) {
        Ok(w) if w.api_ok => w,
        _ => {
            ctx.count("skipped", 1);
            ctx.count("skipped.reference_write_failed", 1);
            return Ok(());
        }
    };
    let _ = w;
    let data = Arc::new(sink.data());
    // the pull reader over the same bytes
    let pull = match catch_unwind(AssertUnwindSafe(|| f.read(ctx, data.clone(), Plan::none()))) {
        Ok(r) if r.err.is_none() && r.invalid.is_none() => r,
        _ => {
            ctx.count("skipped", 1);
            ctx.count("skipped.reference_read_failed", 1);
            return Ok(());
        }
    };
    ctx.ev_bytes("bytes", &data);
    ctx.shape(d.name(), data.len() as u64, pull.rows.len() as u64);
    if !schedules(ctx, d, "valid", &data, Some(&pull.rows))? {
        return Ok(());
    }
    ctx.nontrivial();
    // invalid input: the same bytes cut short at a tape-chosen position
    if truncation_is_invalid && data.len() > 2 {
        let cut = 1 + ctx.below(data.len() - 1, "trunc.at");
        schedules(ctx, d, "truncated", &data[..cut], None)?;
    }
    Ok(())
}

fn csv(ctx: &Ctx) -> R {
    let p = csv_profile(ctx);
    let wl = gen_workload(ctx, &p, 3, 12, true);
    let cfg = CsvFmt::gen_cfg(ctx);
    let f = CsvFmt { wl, cfg, into_inner: false };
    // a cut CSV line is a valid shorter line: still an input whose outcome must not depend on chunking
    run_format(ctx, &f, &CsvDec(&f), true)
}

fn json(ctx: &Ctx) -> R {
    let p = json_profile(ctx);
    let wl = gen_workload(ctx, &p, 3, 10, true);
    let cfg = JsonFmt::gen_cfg(ctx);
    let f = JsonFmt { wl, cfg };
    run_format(ctx, &f, &JsonDec(&f), true)
}

fn ipc_stream(ctx: &Ctx) -> R {
    let p = ipc_profile(ctx);
    let wl = gen_workload(ctx, &p, 3, 12, true);
    let mut cfg = IpcCfg::gen(ctx, false);
    cfg.buffered_reader = false;
    let f = IpcFmt { wl, cfg };
    run_format(ctx, &f, &IpcDec, true)
}

fn main() {
    simcore::main_with(
        "C14",
        &[
            Scenario { name: "csv", runs_quick: 400, runs_thorough: 10000, f: csv },
            Scenario { name: "json", runs_quick: 400, runs_thorough: 10000, f: json },
            Scenario { name: "ipc_stream", runs_quick: 300, runs_thorough: 8000, f: ipc_stream },
        ],
    );
}
