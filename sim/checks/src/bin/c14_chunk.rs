//! C14: push decoders are independent of how their input is cut into chunks.
//!
//! One run = one generated workload written by the real writer (fault-free) and decoded by the real
//! push decoder under many delivery schedules: the whole input at once (reference), every single
//! split point, one byte at a time, and tape-chosen multi-splits with empty chunks where the protocol
//! makes them no-ops. A tape-chosen prefix of the input is also decoded (invalid input: the outcome
//! must not depend on the schedule either).

use arrow_array::RecordBatch;
use arrow_buffer::Buffer;
use checks::ipc::{ipc_profile, IpcCfg, IpcFmt};
use checks::text::{csv_profile, json_profile, CsvFmt, JsonFmt};
use checks::{gen_workload, Fmt, Post, Row};
use simcore::io::{Plan, SimSink};
use simcore::runner::set_component;
use simcore::{bail_v, Ctx, Scenario, R};
use std::panic::{catch_unwind, AssertUnwindSafe};
use std::sync::Arc;

#[global_allocator]
static A: simcore::alloc::CapAlloc = simcore::alloc::CapAlloc;

const STEP_BUDGET: usize = 2_000_000;

#[derive(Default)]
struct DOut {
    rows: Vec<Row>,
    batch_rows: Vec<usize>,
    err: Option<String>,
    invalid: Option<String>,
    schema_sig: Option<String>,
    hang: bool,
}

impl DOut {
    fn take(&mut self, b: RecordBatch) -> bool {
        if let Err(e) = gen::validate_batch(&b) {
            self.invalid = Some(e);
            return false;
        }
        if self.schema_sig.is_none() {
            self.schema_sig = Some(gen::schema_sig(&b.schema(), false));
        }
        self.batch_rows.push(b.num_rows());
        self.rows.extend(gen::rows_of(&b));
        true
    }
}

/// The input as the producer delivers it: consecutive chunks, some of them possibly empty.
struct Chunks<'a> {
    data: &'a [u8],
    /// ascending end offsets of the chunks (the last one is data.len()); repeated offsets are empty chunks
    ends: Vec<usize>,
    cur: usize,
    pos: usize,
}

impl<'a> Chunks<'a> {
    fn new(data: &'a [u8], cuts: &[usize]) -> Self {
        let mut ends: Vec<usize> = cuts.iter().copied().filter(|c| *c <= data.len()).collect();
        ends.push(data.len());
        ends.sort_unstable();
        Chunks { data, ends, cur: 0, pos: 0 }
    }
    /// `BufRead::fill_buf`: the unconsumed rest of the current chunk, moving on to the next non-empty chunk
    /// when it is used up; empty only at the end of the input.
    fn fill_buf(&mut self) -> &'a [u8] {
        while self.cur < self.ends.len() && self.pos >= self.ends[self.cur] {
            self.cur += 1;
        }
        if self.cur >= self.ends.len() {
            return &[];
        }
        &self.data[self.pos..self.ends[self.cur]]
    }
    fn consume(&mut self, n: usize) {
        self.pos += n;
    }
    /// Chunks one by one, empty ones included.
    fn raw(&self) -> Vec<&'a [u8]> {
        let mut out = Vec::with_capacity(self.ends.len());
        let mut s = 0;
        for e in &self.ends {
            out.push(&self.data[s..*e]);
            s = *e;
        }
        out
    }
}

trait Dec {
    fn name(&self) -> &'static str;
    fn batch_size(&self) -> Option<usize>;
    /// whether the API fixes the batch boundaries (so the batch sequence itself must be equal)
    fn fixed_boundaries(&self) -> bool;
    fn decode(&self, data: &[u8], cuts: &[usize]) -> DOut;
}

struct CsvDec<'a>(&'a CsvFmt);
impl Dec for CsvDec<'_> {
    fn name(&self) -> &'static str {
        "csv.decoder"
    }
    fn batch_size(&self) -> Option<usize> {
        Some(self.0.cfg.batch_size)
    }
    fn fixed_boundaries(&self) -> bool {
        true
    }
    fn decode(&self, data: &[u8], cuts: &[usize]) -> DOut {
        set_component("csv.decoder");
        let mut out = DOut::default();
        let mut dec = self.0.reader_builder().build_decoder();
        let mut src = Chunks::new(data, cuts);
        let mut steps = 0;
        // the loop documented on arrow_csv::reader::Decoder (an empty buffer is the EOF signal)
        loop {
            loop {
                steps += 1;
                if steps > STEP_BUDGET {
                    out.hang = true;
                    return out;
                }
                let buf = src.fill_buf();
                match dec.decode(buf) {
                    Err(e) => {
                        out.err = Some(e.to_string());
                        return out;
                    }
                    Ok(0) => break,
                    Ok(n) => src.consume(n),
                }
            }
            match dec.flush() {
                Err(e) => {
                    out.err = Some(e.to_string());
                    return out;
                }
                Ok(None) => return out,
                Ok(Some(b)) => {
                    if !out.take(b) {
                        return out;
                    }
                }
            }
        }
    }
}

struct JsonDec<'a>(&'a JsonFmt);
impl Dec for JsonDec<'_> {
    fn name(&self) -> &'static str {
        "json.decoder"
    }
    fn batch_size(&self) -> Option<usize> {
        Some(self.0.cfg.batch_size)
    }
    fn fixed_boundaries(&self) -> bool {
        true
    }
    fn decode(&self, data: &[u8], cuts: &[usize]) -> DOut {
        set_component("json.decoder");
        let mut out = DOut::default();
        let mut dec = match self.0.reader_builder().build_decoder() {
            Ok(d) => d,
            Err(e) => {
                out.err = Some(format!("build_decoder: {e}"));
                return out;
            }
        };
        let mut src = Chunks::new(data, cuts);
        let mut steps = 0;
        // the loop documented on arrow_json::reader::Decoder
        loop {
            loop {
                steps += 1;
                if steps > STEP_BUDGET {
                    out.hang = true;
                    return out;
                }
                let buf = src.fill_buf();
                if buf.is_empty() {
                    break;
                }
                let read = buf.len();
                match dec.decode(buf) {
                    Err(e) => {
                        out.err = Some(e.to_string());
                        return out;
                    }
                    Ok(n) => {
                        src.consume(n);
                        if n != read {
                            break;
                        }
                    }
                }
            }
            match dec.flush() {
                Err(e) => {
                    out.err = Some(e.to_string());
                    return out;
                }
                Ok(None) => return out,
                Ok(Some(b)) => {
                    if !out.take(b) {
                        return out;
                    }
                }
            }
        }
    }
}

struct IpcDec;
impl Dec for IpcDec {
    fn name(&self) -> &'static str {
        "ipc.stream_decoder"
    }
    fn batch_size(&self) -> Option<usize> {
        None
    }
    fn fixed_boundaries(&self) -> bool {
        true
    }
    fn decode(&self, data: &[u8], cuts: &[usize]) -> DOut {
        set_component("ipc.stream_decoder");
        let mut out = DOut::default();
        let mut dec = arrow_ipc::reader::StreamDecoder::new();
        let src = Chunks::new(data, cuts);
        let mut steps = 0;
        // the loop documented on StreamDecoder::decode; an empty chunk is a no-op by construction
        for chunk in src.raw() {
            let mut buf = Buffer::from(chunk.to_vec());
            while !buf.is_empty() {
                steps += 1;
                if steps > STEP_BUDGET {
                    out.hang = true;
                    return out;
                }
                match dec.decode(&mut buf) {
                    Err(e) => {
                        out.err = Some(e.to_string());
                        return out;
                    }
                    Ok(None) => {}
                    Ok(Some(b)) => {
                        if !out.take(b) {
                            return out;
                        }
                    }
                }
            }
        }
        if let Err(e) = dec.finish() {
            out.err = Some(e.to_string());
        }
        if out.schema_sig.is_none() {
            out.schema_sig = dec.schema().map(|s| gen::schema_sig(&s, false));
        }
        out
    }
}

fn run_dec(d: &dyn Dec, data: &[u8], cuts: &[usize]) -> Result<DOut, ()> {
    catch_unwind(AssertUnwindSafe(|| d.decode(data, cuts))).map_err(|_| ())
}

/// Compare one schedule against the one-chunk reference.
fn compare(ctx: &Ctx, d: &dyn Dec, what: &str, input: &str, rf: &DOut, got: &DOut, cuts: &[usize]) -> R {
    let key = format!("{}/{what}.{input}", d.name());
    let cuts_s = || format!("{:?}", &cuts[..cuts.len().min(12)]);
    if got.hang {
        bail_v!(ctx, "hang", &key, "decoder made no progress within {STEP_BUDGET} driver steps (cuts {})", cuts_s());
    }
    if let Some(e) = &got.invalid {
        bail_v!(ctx, "invalid_array", &key, "decoder emitted an invalid batch: {e} (cuts {})", cuts_s());
    }
    if rf.err.is_some() != got.err.is_some() {
        bail_v!(ctx, "outcome_depends_on_chunking", &key, "one chunk: {:?}; cuts {}: {:?} ({} vs {} rows)", rf.err, cuts_s(), got.err, rf.rows.len(), got.rows.len());
    }
    if rf.err.is_none() {
        if got.rows != rf.rows {
            bail_v!(ctx, "rows_depend_on_chunking", &key, "cuts {}: {} rows vs {} in one chunk: {}", cuts_s(), got.rows.len(), rf.rows.len(), gen::diff_rows(&rf.rows, &got.rows).unwrap_or_default());
        }
        if got.schema_sig != rf.schema_sig {
            bail_v!(ctx, "schema_depends_on_chunking", &key, "cuts {}: schema {:?} vs {:?}", cuts_s(), got.schema_sig, rf.schema_sig);
        }
        if d.fixed_boundaries() && got.batch_rows != rf.batch_rows {
            bail_v!(ctx, "batches_depend_on_chunking", &key, "cuts {}: batch sizes {:?} vs {:?}", cuts_s(), got.batch_rows, rf.batch_rows);
        }
    } else {
        // an error found at flush discards that batch: only the prefix relation is required
        let (a, b) = if got.rows.len() <= rf.rows.len() { (&got.rows, &rf.rows) } else { (&rf.rows, &got.rows) };
        if a[..] != b[..a.len()] {
            bail_v!(ctx, "rows_depend_on_chunking", &key, "both schedules fail, but the rows emitted before the error disagree (cuts {})", cuts_s());
        }
    }
    if let Some(bs) = d.batch_size() {
        if let Some(big) = got.batch_rows.iter().find(|n| **n > bs) {
            bail_v!(ctx, "batch_too_large", &key, "a batch of {big} rows exceeds batch_size {bs} (cuts {})", cuts_s());
        }
    }
    Ok(())
}

fn exec(ctx: &Ctx, d: &dyn Dec, what: &str, input: &str, data: &[u8], rf: &DOut, cuts: &[usize]) -> R {
    ctx.count("executions", 1);
    ctx.count(&format!("fault.chunking.{what}"), 1);
    // a panic in the decoder unwinds to the runner, which attributes it to the component
    let got = d.decode(data, cuts);
    compare(ctx, d, what, input, rf, &got, cuts)
}

/// All schedules over one input.
fn schedules(ctx: &Ctx, d: &dyn Dec, input: &'static str, data: &[u8], pull_rows: Option<&[Row]>) -> R<bool> {
    let n = data.len();
    let rf = match run_dec(d, data, &[]) {
        Ok(r) => r,
        Err(()) => {
            ctx.count("skipped", 1);
            ctx.count("skipped.reference_panicked", 1);
            return Ok(false);
        }
    };
    ctx.count("executions", 1);
    if rf.hang || rf.invalid.is_some() {
        ctx.count("skipped", 1);
        ctx.count("skipped.reference_unusable", 1);
        return Ok(false);
    }
    ctx.ev(input, n as u64, rf.rows.len() as u64);
    ctx.ev("ref.outcome", rf.err.is_some() as u64, rf.batch_rows.len() as u64);
    if let (Some(pull), None) = (pull_rows, &rf.err) {
        if rf.rows[..] != pull[..] {
            bail_v!(ctx, "differs_from_pull_reader", &format!("{}/one_chunk.{input}", d.name()), "push decoder returned {} rows, the pull reader {}: {}", rf.rows.len(), pull.len(), gen::diff_rows(pull, &rf.rows).unwrap_or_default());
        }
    }
    if rf.err.is_some() {
        ctx.probe("reference_is_error");
    }
    // every single split point (stride for long inputs)
    let stride = (n / 3000).max(1);
    let points: Vec<usize> = (1..n).step_by(stride).collect();
    let (label_s, label_b, label_m): (&str, &str, &str) = match input {
        "valid" => ("s", "b1", "m"),
        "truncated" => ("ts", "tb1", "tm"),
        _ => ("ms", "mb1", "mm"),
    };
    for j in ctx.sweep(label_s, points.len()) {
        ctx.set_at(label_s, j as u64);
        exec(ctx, d, "split", input, data, &rf, &[points[j]])?;
    }
    ctx.clear_at(label_s);
    // one byte at a time
    if n <= 6000 && ctx.part(label_b) {
        let cuts: Vec<usize> = (1..n).collect();
        exec(ctx, d, "bytewise", input, data, &rf, &cuts)?;
    }
    // tape-chosen multi-splits, with empty chunks (repeated cut points) where they are no-ops
    if n >= 2 && ctx.part(label_m) {
        let rounds = 1 + ctx.below(6, "multi.rounds");
        for _ in 0..rounds {
            let k = 1 + ctx.size(24, "multi.cuts");
            let mut cuts: Vec<usize> = (0..k).map(|_| if ctx.chance(1, 8, "multi.dup") { 0 } else { 1 + ctx.below(n - 1, "multi.at") }).collect();
            // `0` stands for "repeat the previous cut": an empty chunk in the middle of the stream
            for i in 0..cuts.len() {
                if cuts[i] == 0 {
                    cuts[i] = if i > 0 { cuts[i - 1] } else { 1 };
                }
            }
            cuts.sort_unstable();
            if d.name() == "csv.decoder" {
                // for CSV an empty buffer is the documented end-of-input signal, never sent mid-stream
                cuts.dedup();
            }
            ctx.shape("multi", cuts.len() as u64, cuts.iter().fold(0u64, |h, c| h.wrapping_mul(31).wrapping_add(*c as u64)));
            exec(ctx, d, "multi", input, data, &rf, &cuts)?;
        }
    }
    Ok(true)
}

fn run_format(ctx: &Ctx, f: &dyn Fmt, d: &dyn Dec, truncation_is_invalid: bool) -> R {
    ctx.note("format", f.describe());
    let sink = SimSink::new(ctx, Plan::none());
    let w = match catch_unwind(AssertUnwindSafe(|| f.write(ctx, sink.clone(), Post::IntoInner))) {
        Ok(w) if w.api_ok => w,
        _ => {
            ctx.count("skipped", 1);
            ctx.count("skipped.reference_write_failed", 1);
            return Ok(());
        }
    };
    let _ = w;
    let data = Arc::new(sink.data());
    // the pull reader over the same bytes
    let pull = match catch_unwind(AssertUnwindSafe(|| f.read(ctx, data.clone(), Plan::none()))) {
        Ok(r) if r.err.is_none() && r.invalid.is_none() => r,
        _ => {
            ctx.count("skipped", 1);
            ctx.count("skipped.reference_read_failed", 1);
            return Ok(());
        }
    };
    ctx.ev_bytes("bytes", &data);
    ctx.shape(d.name(), data.len() as u64, pull.rows.len() as u64);
    if !schedules(ctx, d, "valid", &data, Some(&pull.rows))? {
        return Ok(());
    }
    ctx.nontrivial();
    // invalid input: the same bytes cut short at a tape-chosen position
    if truncation_is_invalid && data.len() > 2 {
        let cut = 1 + ctx.below(data.len() - 1, "trunc.at");
        schedules(ctx, d, "truncated", &data[..cut], None)?;
    }
    // text formats: the same bytes after a few text-level edits (short rows, stray quotes and delimiters, damaged
    // escapes): valid or not, the outcome must not depend on the chunking
    if matches!(d.name(), "csv.decoder" | "json.decoder") && data.len() > 2 && ctx.part("mangled") {
        let m = mangle(ctx, &data, d.name() == "csv.decoder");
        ctx.ev_bytes("mangled", &m);
        if m.len() > 1 {
            schedules(ctx, d, "mangled", &m, None)?;
        }
    }
    Ok(())
}

/// 1-3 text-level edits of a CSV / JSON document.
fn mangle(ctx: &Ctx, data: &[u8], csv: bool) -> Vec<u8> {
    let mut m = data.to_vec();
    const SPECIAL: &[u8] = b",;\t|\"\n\r\\+-u{}[]: 0eE.";
    for _ in 0..1 + ctx.below(3, "mangle.n") {
        if m.len() < 2 {
            break;
        }
        match ctx.draw(6, "mangle.kind") {
            // a row loses its tail: from some delimiter (CSV) / byte to the end of the line
            0 | 1 => {
                let starts: Vec<usize> = std::iter::once(0).chain(m.iter().enumerate().filter(|(_, b)| **b == b'\n').map(|(i, _)| i + 1)).filter(|s| *s < m.len()).collect();
                let s = starts[ctx.below(starts.len(), "mangle.line")];
                let e = m[s..].iter().position(|b| *b == b'\n' || *b == b'\r').map(|p| s + p).unwrap_or(m.len());
                let cands: Vec<usize> = (s..e).filter(|i| !csv || matches!(m[*i], b',' | b';' | b'\t' | b'|')).collect();
                if !cands.is_empty() {
                    let from = cands[ctx.below(cands.len(), "mangle.from")];
                    m.drain(from..e);
                    ctx.probe("mangle.short_row");
                }
            }
            // a damaged escape: one of the four digits after a `\u` (JSON), inserted if the text has none
            2 if !csv => {
                let esc: Vec<usize> = m.windows(2).enumerate().filter(|(_, w)| w == b"\\u").map(|(i, _)| i).collect();
                let bad = *ctx.pick(&[b'+', b'-', b' ', b'g', b'"'], "mangle.hex");
                if let Some(i) = (!esc.is_empty()).then(|| esc[ctx.below(esc.len(), "mangle.esc")]) {
                    let at = i + 2 + ctx.below(4, "mangle.digit");
                    if at < m.len() {
                        m[at] = bad;
                    }
                } else {
                    let quotes: Vec<usize> = m.iter().enumerate().filter(|(_, b)| **b == b'"').map(|(i, _)| i + 1).collect();
                    if !quotes.is_empty() {
                        let at = quotes[ctx.below(quotes.len(), "mangle.quote")];
                        let mut seq = b"\\u0041".to_vec();
                        seq[2 + ctx.below(4, "mangle.digit")] = bad;
                        m.splice(at..at, seq);
                    }
                }
                ctx.probe("mangle.escape");
            }
            2 | 3 => {
                let at = ctx.below(m.len(), "mangle.at");
                m[at] = SPECIAL[ctx.below(SPECIAL.len(), "mangle.byte")];
            }
            4 => {
                let at = ctx.below(m.len(), "mangle.at");
                m.remove(at);
            }
            _ => {
                let at = ctx.below(m.len() + 1, "mangle.at");
                m.insert(at, SPECIAL[ctx.below(SPECIAL.len(), "mangle.byte")]);
            }
        }
    }
    m
}

fn csv(ctx: &Ctx) -> R {
    let p = csv_profile(ctx);
    let wl = gen_workload(ctx, &p, 3, 12, true);
    let cfg = CsvFmt::gen_cfg(ctx);
    let f = CsvFmt { wl, cfg, into_inner: false };
    // a cut CSV line is a valid shorter line: still an input whose outcome must not depend on chunking
    run_format(ctx, &f, &CsvDec(&f), true)
}

fn json(ctx: &Ctx) -> R {
    let p = json_profile(ctx);
    let wl = gen_workload(ctx, &p, 3, 10, true);
    let cfg = JsonFmt::gen_cfg(ctx);
    let f = JsonFmt { wl, cfg };
    run_format(ctx, &f, &JsonDec(&f), true)
}

fn ipc_stream(ctx: &Ctx) -> R {
    let p = ipc_profile(ctx);
    let wl = gen_workload(ctx, &p, 3, 12, true);
    let mut cfg = IpcCfg::gen(ctx, false);
    cfg.buffered_reader = false;
    let f = IpcFmt { wl, cfg };
    run_format(ctx, &f, &IpcDec, true)
}

// ---------------------------------------------------------------------------------------------
// ParquetMetaDataPushDecoder: the "chunking" is the delivery schedule of byte ranges
// ---------------------------------------------------------------------------------------------

use bytes::Bytes;
use parquet::file::metadata::{PageIndexPolicy, ParquetMetaData, ParquetMetaDataPushDecoder, ParquetMetaDataReader};
use parquet::DecodeResult;
use std::ops::Range;

/// Drive the metadata push decoder: `pre` is pushed up front (in this order), afterwards every request is
/// answered exactly. Returns the metadata or the error, and the number of request rounds.
fn meta_push(ctx: &Ctx, file: &Bytes, policy: PageIndexPolicy, pre: &[Range<u64>]) -> R<(Result<ParquetMetaData, String>, usize)> {
    set_component("parquet.metadata_push_decoder");
    let len = file.len() as u64;
    let mut d = match ParquetMetaDataPushDecoder::try_new(len) {
        Ok(d) => d.with_page_index_policy(policy),
        Err(e) => return Ok((Err(e.to_string()), 0)),
    };
    for r in pre {
        if let Err(e) = d.push_range(r.clone(), file.slice(r.start as usize..r.end as usize)) {
            return Ok((Err(e.to_string()), 0));
        }
    }
    let mut rounds = 0usize;
    let mut last: Option<Vec<Range<u64>>> = None;
    loop {
        ctx.step();
        match d.try_decode() {
            Ok(DecodeResult::Data(m)) => return Ok((Ok(m), rounds)),
            Ok(DecodeResult::Finished) => return Ok((Err("Finished without metadata".into()), rounds)),
            Err(e) => return Ok((Err(e.to_string()), rounds)),
            Ok(DecodeResult::NeedsData(ranges)) => {
                rounds += 1;
                for r in &ranges {
                    if r.start > r.end || r.end > len {
                        bail_v!(ctx, "range_outside_file", "parquet.metadata_push_decoder/request", "requested {}..{} of a {len}-byte file", r.start, r.end);
                    }
                }
                if ranges.is_empty() || last.as_ref() == Some(&ranges) || rounds > 8 {
                    bail_v!(ctx, "no_progress", "parquet.metadata_push_decoder/same_request", "round {rounds}: asked for {:?} again although exactly these ranges were supplied (pre-pushed: {} ranges)", &ranges[..ranges.len().min(4)], pre.len());
                }
                let data = ranges.iter().map(|r| file.slice(r.start as usize..r.end as usize)).collect();
                if let Err(e) = d.push_ranges(ranges.clone(), data) {
                    return Ok((Err(e.to_string()), rounds));
                }
                last = Some(ranges);
            }
        }
    }
}

fn meta_compare(ctx: &Ctx, what: &str, input: &str, rf: &Result<ParquetMetaData, String>, got: &Result<ParquetMetaData, String>, detail: &str) -> R {
    let key = format!("parquet.metadata_push_decoder/{what}.{input}");
    match (rf, got) {
        (Ok(a), Ok(b)) => {
            // compared through Debug: statistics may hold NaN, for which `==` is false even on identical metadata
            if format!("{a:?}") != format!("{b:?}") {
                bail_v!(ctx, "rows_depend_on_chunking", &key, "metadata decoded under schedule [{detail}] differs from the one-delivery result ({} vs {} row groups, {} vs {} rows)", b.num_row_groups(), a.num_row_groups(), b.file_metadata().num_rows(), a.file_metadata().num_rows());
            }
        }
        (Err(_), Err(_)) => {}
        (a, b) => bail_v!(ctx, "outcome_depends_on_chunking", &key, "whole file at once: {}; schedule [{detail}]: {}", a.as_ref().map(|_| "Ok".to_string()).unwrap_or_else(|e| e.clone()), b.as_ref().map(|_| "Ok".to_string()).unwrap_or_else(|e| e.clone())),
    }
    Ok(())
}

fn meta_schedules(ctx: &Ctx, input: &'static str, file: &Bytes, policy: PageIndexPolicy, pull: &Result<ParquetMetaData, String>) -> R {
    let len = file.len() as u64;
    // reference: the whole file delivered in one range
    let (rf, _) = meta_push(ctx, file, policy, &[0..len])?;
    ctx.count("executions", 1);
    if rf.is_err() {
        ctx.probe("reference_is_error");
    }
    meta_compare(ctx, "pull_reader", input, pull, &rf, "whole file")?;
    // nothing up front: exact answers only; at most footer + metadata + page index rounds
    let (got, rounds) = meta_push(ctx, file, policy, &[])?;
    ctx.count("executions", 1);
    ctx.count("fault.delivery.exact", 1);
    meta_compare(ctx, "exact", input, &rf, &got, "exact answers")?;
    if got.is_ok() && rounds > 3 {
        bail_v!(ctx, "no_progress", "parquet.metadata_push_decoder/rounds", "{rounds} request rounds with exact answers (footer, metadata, page index = 3 at most)");
    }
    // the file pre-pushed as two consecutive buffers, for every split point
    let stride = (len as usize / 2500).max(1);
    let points: Vec<u64> = (1..len).step_by(stride).collect();
    let l: &str = if input == "valid" { "ms" } else { "tms" };
    for j in ctx.sweep(l, points.len()) {
        ctx.set_at(l, j as u64);
        let k = points[j];
        let (got, _) = meta_push(ctx, file, policy, &[0..k, k..len])?;
        ctx.count("executions", 1);
        ctx.count("fault.delivery.two_consecutive_buffers", 1);
        meta_compare(ctx, "split", input, &rf, &got, &format!("0..{k}, {k}..{len} pushed up front"))?;
    }
    ctx.clear_at(l);
    // a tail prefetch of every length
    let l: &str = if input == "valid" { "mt" } else { "tmt" };
    for j in ctx.sweep(l, points.len()) {
        ctx.set_at(l, j as u64);
        let k = points[j];
        let (got, _) = meta_push(ctx, file, policy, &[k..len])?;
        ctx.count("executions", 1);
        ctx.count("fault.delivery.tail_prefetch", 1);
        meta_compare(ctx, "tail", input, &rf, &got, &format!("{k}..{len} pushed up front"))?;
    }
    ctx.clear_at(l);
    // uniform consecutive buffers, and tape-chosen multi-buffer deliveries (overlapping, duplicated, shuffled)
    let l: &str = if input == "valid" { "mm" } else { "tmm" };
    if ctx.part(l) {
        for size in [1u64, 2, 3, 7, 8, 16, 64, 100, 1000] {
            if len / size > 20_000 {
                continue;
            }
            let pre: Vec<Range<u64>> = (0..len).step_by(size as usize).map(|s| s..(s + size).min(len)).collect();
            let (got, _) = meta_push(ctx, file, policy, &pre)?;
            ctx.count("executions", 1);
            ctx.count("fault.delivery.uniform_buffers", 1);
            meta_compare(ctx, "uniform", input, &rf, &got, &format!("consecutive {size}-byte buffers pushed up front"))?;
        }
        for _ in 0..1 + ctx.below(6, "meta.multi.rounds") {
            let k = 1 + ctx.size(12, "meta.multi.n");
            let mut pre: Vec<Range<u64>> = (0..k)
                .map(|_| {
                    let s = ctx.below(len as usize, "meta.multi.lo") as u64;
                    // biased to the tail, where the metadata lives
                    let s = if ctx.chance(1, 2, "meta.multi.tail") { len - (len - s) / 8 - 1 } else { s };
                    s..(s + 1 + ctx.below((len - s) as usize, "meta.multi.len") as u64).min(len)
                })
                .collect();
            if ctx.chance(1, 3, "meta.multi.dup") {
                let d = pre[0].clone();
                pre.push(d);
            }
            ctx.shape("meta.multi", pre.len() as u64, pre.iter().fold(0u64, |h, r| h.wrapping_mul(31).wrapping_add(r.start * 7 + r.end)));
            let (got, _) = meta_push(ctx, file, policy, &pre)?;
            ctx.count("executions", 1);
            ctx.count("fault.delivery.random_buffers", 1);
            meta_compare(ctx, "multi", input, &rf, &got, &format!("{pre:?} pushed up front"))?;
        }
    }
    Ok(())
}

fn pq_meta(ctx: &Ctx) -> R {
    let Some(f) = checks::c15::gen_file(ctx, 40)? else { return Ok(()) };
    let policy = *ctx.pick(&[PageIndexPolicy::Optional, PageIndexPolicy::Skip, PageIndexPolicy::Required], "meta.policy");
    let pull = |b: &Bytes| ParquetMetaDataReader::new().with_page_index_policy(policy).parse_and_finish(b).map_err(|e| e.to_string());
    ctx.nontrivial();
    ctx.shape("parquet.metadata_push_decoder", f.bytes.len() as u64, f.meta.num_row_groups() as u64);
    set_component("parquet.metadata_reader(reference)");
    let p = pull(&f.bytes);
    meta_schedules(ctx, "valid", &f.bytes, policy, &p)?;
    // invalid inputs: the file cut short, and one damaged byte in the footer region
    if f.bytes.len() > 12 {
        let cut = 1 + ctx.below(f.bytes.len() - 1, "meta.trunc");
        let t = f.bytes.slice(0..cut);
        set_component("parquet.metadata_reader(reference)");
        let p = match catch_unwind(AssertUnwindSafe(|| pull(&t))) {
            Ok(p) => p,
            Err(_) => {
                ctx.count("skipped.reference_panicked", 1);
                return Ok(());
            }
        };
        meta_schedules(ctx, "truncated", &t, policy, &p)?;
        let mut v = f.bytes.to_vec();
        let n = v.len();
        let at = n - 1 - ctx.below(n.min(64), "meta.flip_at");
        v[at] ^= 1 << ctx.below(8, "meta.flip_bit");
        let c = Bytes::from(v);
        set_component("parquet.metadata_reader(reference)");
        let p = match catch_unwind(AssertUnwindSafe(|| pull(&c))) {
            Ok(p) => p,
            Err(_) => {
                ctx.count("skipped.reference_panicked", 1);
                return Ok(());
            }
        };
        // a damaged file may make the push decoder panic or over-allocate: that is C08's matter, not chunk dependence
        match catch_unwind(AssertUnwindSafe(|| meta_schedules(ctx, "corrupted", &c, policy, &p))) {
            Ok(r) => r?,
            Err(_) => ctx.count("corrupted_input_panicked(C08)", 1),
        }
    }
    Ok(())
}

// ---------------------------------------------------------------------------------------------
// FlightRecordBatchStream / FlightDataDecoder: the schedule is the Pending / Ready pattern of the message stream
// ---------------------------------------------------------------------------------------------

use arrow_flight::decode::FlightRecordBatchStream;
use arrow_flight::encode::{DictionaryHandling as FlightDictHandling, FlightDataEncoderBuilder};
use arrow_flight::error::FlightError;
use arrow_flight::FlightData;
use futures::{Stream, StreamExt};
use simcore::aio::{Executor, Gate, OpFuture};
use std::pin::Pin;
use std::task::{Context, Poll};

/// Delivers prepared messages; bit i of `pattern` = return `Pending` once before item i (bit n: before the end).
struct PatternStream {
    items: std::collections::VecDeque<FlightData>,
    idx: u32,
    pattern: u64,
    pended: bool,
    gate: Gate,
    op: Option<OpFuture>,
}

impl Stream for PatternStream {
    type Item = Result<FlightData, FlightError>;
    fn poll_next(mut self: Pin<&mut Self>, cx: &mut Context<'_>) -> Poll<Option<Self::Item>> {
        let this = &mut *self;
        if let Some(op) = &mut this.op {
            if op.poll_op(cx).is_pending() {
                return Poll::Pending;
            }
            this.op = None;
        } else if !this.pended && this.idx < 64 && (this.pattern >> this.idx) & 1 == 1 {
            this.pended = true;
            let mut op = this.gate.op();
            if op.poll_op(cx).is_pending() {
                this.op = Some(op);
                return Poll::Pending;
            }
        }
        this.pended = false;
        this.idx += 1;
        Poll::Ready(this.items.pop_front().map(Ok))
    }
}

fn flight_decode(ctx: &Ctx, msgs: &[FlightData], pattern: u64) -> R<DOut> {
    set_component("flight.decoder");
    let gate = Gate::new();
    let s = PatternStream { items: msgs.iter().cloned().collect(), idx: 0, pattern, pended: false, gate: gate.clone(), op: None };
    let mut dec = FlightRecordBatchStream::new_from_flight_data(s);
    let mut ex = Executor::new(ctx, &gate);
    ex.allow_spurious = false;
    let mut out = DOut::default();
    loop {
        match ex.block_on(dec.next(), "flight.decoder")? {
            None => break,
            Some(Ok(b)) => {
                if !out.take(b) {
                    break;
                }
            }
            Some(Err(e)) => {
                out.err = Some(e.to_string());
                break;
            }
        }
        if out.batch_rows.len() > 100_000 {
            out.hang = true;
            break;
        }
    }
    if out.schema_sig.is_none() {
        out.schema_sig = dec.schema().map(|s| gen::schema_sig(s, true));
    }
    Ok(out)
}

fn flight_decoder(ctx: &Ctx) -> R {
    let mut p = ipc_profile(ctx);
    p.zero_cols = false;
    p.union = false; // hydrating a union that holds a dictionary is the known C04 finding; not a chunking matter
    let wl = checks::c04::gen_wl(ctx, &p, 3, 8);
    let cfg = IpcCfg::gen(ctx, false);
    let resend = ctx.chance(1, 2, "fd.resend");
    // the messages of a valid stream, from the real encoder (no Pending on this side)
    let gate = Gate::new();
    let input = futures::stream::iter(wl.batches.clone().into_iter().map(Ok::<_, FlightError>));
    let mut enc = FlightDataEncoderBuilder::new()
        .with_options(cfg.options())
        .with_max_flight_data_size(*ctx.pick(&[2 * 1024 * 1024, 64, 600], "fd.max"))
        .with_dictionary_handling(if resend { FlightDictHandling::Resend } else { FlightDictHandling::Hydrate })
        .build(input);
    let mut ex = Executor::new(ctx, &gate);
    let mut msgs: Vec<FlightData> = vec![];
    loop {
        match ex.block_on(enc.next(), "flight.encoder(reference)")? {
            None => break,
            Some(Ok(m)) => msgs.push(m),
            Some(Err(_)) => {
                ctx.count("skipped", 1);
                ctx.count("skipped.reference_write_failed", 1);
                return Ok(());
            }
        }
    }
    if msgs.len() > 40 {
        msgs.truncate(40);
    }
    ctx.nontrivial();
    ctx.shape("flight.decoder", msgs.len() as u64, wl.batches.len() as u64);
    // an invalid variant of the message sequence (tape-chosen), decoded under the same schedules
    let mut variants: Vec<(&'static str, Vec<FlightData>)> = vec![("valid", msgs.clone())];
    if !msgs.is_empty() {
        let mut v = msgs.clone();
        let kind = ctx.draw(5, "fd.invalid");
        match kind {
            0 => {
                // the schema message twice in a row
                v.insert(1.min(v.len()), msgs[0].clone());
            }
            1 => {
                // the schema message again after a tape-chosen message
                let at = 1 + ctx.below(v.len(), "fd.dup_at");
                v.insert(at.min(v.len()), msgs[0].clone());
            }
            2 => {
                v.remove(0);
            }
            3 => {
                let at = ctx.below(v.len(), "fd.trunc_at");
                let n = v[at].data_body.len();
                v[at].data_body = v[at].data_body.slice(0..n / 2);
            }
            _ => {
                let at = ctx.below(v.len(), "fd.drop_at");
                v.remove(at);
            }
        }
        variants.push(("invalid", v));
    }
    for (input, v) in &variants {
        let n = v.len() as u32;
        // a damaged message sequence that makes the decoder panic with every message ready is C08's matter
        let rf = match catch_unwind(AssertUnwindSafe(|| flight_decode(ctx, v, 0))) {
            Ok(r) => r?,
            Err(_) => {
                ctx.count("invalid_input_panicked(C08)", 1);
                continue;
            }
        };
        ctx.count("executions", 1);
        if rf.hang || rf.invalid.is_some() {
            ctx.count("skipped", 1);
            ctx.count("skipped.reference_unusable", 1);
            continue;
        }
        if rf.err.is_some() {
            ctx.probe("reference_is_error");
        }
        ctx.ev(input, n as u64, rf.rows.len() as u64);
        // every Pending / Ready pattern for short sequences, a stride of them otherwise
        let bits = (n + 1).min(63);
        let total: u64 = 1u64 << bits.min(12);
        let label: &str = if *input == "valid" { "fp" } else { "ifp" };
        for j in ctx.sweep(label, total as usize) {
            ctx.set_at(label, j as u64);
            let pattern = if bits <= 12 { j as u64 } else { simcore::splitmix64(j as u64 ^ 0x5151) & ((1u64 << bits) - 1) };
            let got = flight_decode(ctx, v, pattern)?;
            ctx.count("executions", 1);
            ctx.count("fault.pending_pattern", 1);
            let key = format!("flight.decoder/pattern.{input}");
            if got.hang {
                bail_v!(ctx, "hang", &key, "decoder did not finish under Pending pattern {pattern:#b}");
            }
            if let Some(e) = &got.invalid {
                bail_v!(ctx, "invalid_array", &key, "decoder emitted an invalid batch under pattern {pattern:#b}: {e}");
            }
            if rf.err.is_some() != got.err.is_some() {
                bail_v!(ctx, "outcome_depends_on_chunking", &key, "all messages ready: {:?} ({} rows); Pending pattern {pattern:#b} over {n} messages: {:?} ({} rows)", rf.err, rf.rows.len(), got.err, got.rows.len());
            }
            if rf.err.is_none() && (got.rows != rf.rows || got.schema_sig != rf.schema_sig) {
                bail_v!(ctx, "rows_depend_on_chunking", &key, "Pending pattern {pattern:#b}: {} rows / schema {:?} vs {} rows / {:?} with all messages ready", got.rows.len(), got.schema_sig, rf.rows.len(), rf.schema_sig);
            }
            if rf.err.is_some() {
                let (a, b) = if got.rows.len() <= rf.rows.len() { (&got.rows, &rf.rows) } else { (&rf.rows, &got.rows) };
                if a[..] != b[..a.len()] {
                    bail_v!(ctx, "rows_depend_on_chunking", &key, "both schedules fail, but the rows emitted before the error disagree (pattern {pattern:#b})");
                }
            }
        }
        ctx.clear_at(label);
    }
    Ok(())
}

// ---------------------------------------------------------------------------------------------
// Avro single-object-encoding Decoder (schema store + fingerprint framing)
// ---------------------------------------------------------------------------------------------

struct AvroDec {
    store: arrow_avro::schema::SchemaStore,
    batch_size: usize,
}

impl Dec for AvroDec {
    fn name(&self) -> &'static str {
        "avro.decoder"
    }
    fn batch_size(&self) -> Option<usize> {
        Some(self.batch_size)
    }
    fn fixed_boundaries(&self) -> bool {
        false
    }
    fn decode(&self, data: &[u8], cuts: &[usize]) -> DOut {
        set_component("avro.decoder");
        let mut out = DOut::default();
        let mut dec = match arrow_avro::reader::ReaderBuilder::new().with_writer_schema_store(self.store.clone()).with_batch_size(self.batch_size).build_decoder() {
            Ok(d) => d,
            Err(e) => {
                out.err = Some(e.to_string());
                return out;
            }
        };
        let src = Chunks::new(data, cuts);
        let mut carry: Vec<u8> = Vec::new();
        let mut steps = 0;
        // the loop documented on arrow_avro::reader::Decoder: feed, re-present what was not consumed together with
        // the next chunk, flush when the batch is full and at the end
        for chunk in src.raw() {
            carry.extend_from_slice(chunk);
            loop {
                steps += 1;
                if steps > STEP_BUDGET {
                    out.hang = true;
                    return out;
                }
                if carry.is_empty() {
                    break;
                }
                let n = match dec.decode(&carry) {
                    Ok(n) => n,
                    Err(e) => {
                        out.err = Some(e.to_string());
                        return out;
                    }
                };
                carry.drain(..n);
                if dec.batch_is_full() {
                    match dec.flush() {
                        Ok(Some(b)) => {
                            if !out.take(b) {
                                return out;
                            }
                        }
                        Ok(None) => {}
                        Err(e) => {
                            out.err = Some(e.to_string());
                            return out;
                        }
                    }
                } else if n == 0 {
                    // needs more bytes
                    break;
                }
            }
        }
        match dec.flush() {
            Ok(Some(b)) => {
                out.take(b);
            }
            Ok(None) => {}
            Err(e) => out.err = Some(e.to_string()),
        }
        if !carry.is_empty() && out.err.is_none() {
            out.err = Some(format!("{} trailing bytes could not be decoded", carry.len()));
        }
        out
    }
}

fn avro_soe(ctx: &Ctx) -> R {
    use arrow_avro::schema::{AvroSchema, SchemaStore};
    use arrow_avro::writer::format::AvroSoeFormat;
    use arrow_avro::writer::WriterBuilder;
    let p = checks::avro::avro_profile(ctx);
    let wl = gen_workload(ctx, &p, 2, 6, false);
    let batch_size = *ctx.pick(&[1024usize, 1, 2, 3], "avro.batch");
    // the schema the writer derives from the Arrow schema is the one the reader's store must know
    let Ok(avro_schema) = AvroSchema::try_from(wl.schema.as_ref()) else {
        ctx.count("skipped", 1);
        ctx.count("skipped.reference_write_failed", 1);
        return Ok(());
    };
    let mut store = SchemaStore::new();
    if store.register(avro_schema).is_err() {
        ctx.count("skipped", 1);
        return Ok(());
    }
    let written = catch_unwind(AssertUnwindSafe(|| -> Result<Vec<u8>, String> {
        let mut w = WriterBuilder::new(wl.schema.as_ref().clone()).build::<_, AvroSoeFormat>(Vec::new()).map_err(|e| e.to_string())?;
        for b in &wl.batches {
            w.write(b).map_err(|e| e.to_string())?;
        }
        w.finish().map_err(|e| e.to_string())?;
        Ok(w.into_inner())
    }));
    let data = match written {
        Ok(Ok(d)) => d,
        _ => {
            ctx.count("skipped", 1);
            ctx.count("skipped.reference_write_failed", 1);
            return Ok(());
        }
    };
    ctx.ev_bytes("bytes", &data);
    let d = AvroDec { store, batch_size };
    ctx.shape(d.name(), data.len() as u64, wl.total_rows() as u64);
    // rows of the one-chunk decode against what was written
    let truth = wl.rows();
    if !schedules(ctx, &d, "valid", &data, None)? {
        return Ok(());
    }
    let _ = truth;
    ctx.nontrivial();
    if data.len() > 2 {
        let cut = 1 + ctx.below(data.len() - 1, "trunc.at");
        schedules(ctx, &d, "truncated", &data[..cut], None)?;
    }
    Ok(())
}

fn main() {
    simcore::main_with(
        "C14",
        &[
            Scenario { name: "csv", runs_quick: 400, runs_thorough: 10000, f: csv },
            Scenario { name: "json", runs_quick: 400, runs_thorough: 10000, f: json },
            Scenario { name: "ipc_stream", runs_quick: 300, runs_thorough: 8000, f: ipc_stream },
            Scenario { name: "avro_soe", runs_quick: 150, runs_thorough: 3000, f: avro_soe },
            Scenario { name: "pq_meta", runs_quick: 300, runs_thorough: 8000, f: pq_meta },
            Scenario { name: "flight_decoder", runs_quick: 600, runs_thorough: 20000, f: flight_decoder },
        ],
    );
}
