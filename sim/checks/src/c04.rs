//! C04 engine: batch histories with per-field dictionary evolution written by the IPC file / stream
//! writers, the stream encoder and the Flight encoder, read back by the matching readers over benign
//! (short / interrupted / chunked / Pending) transports, compared with a single-copy log of logical rows.

use crate::ipc::IpcCfg;
use crate::Row;
use arrow_array::types::{ArrowDictionaryKeyType, Int16Type, Int32Type, Int8Type, UInt8Type};
use arrow_array::{ArrayRef, DictionaryArray, Int32Array, ListArray, PrimitiveArray, RecordBatch, RecordBatchOptions, StringArray, StructArray};
use arrow_buffer::{Buffer, NullBuffer, OffsetBuffer};
use arrow_ipc::reader::{FileReader, StreamDecoder, StreamReader};
use arrow_ipc::writer::{FileWriter, StreamEncoder, StreamWriter};
use arrow_schema::{DataType, Field, Fields, Schema, SchemaRef, UnionFields};
use gen::types_api::Profile;
use gen::V;
use simcore::io::{Plan, SimSink, SimSource};
use simcore::runner::{harness, set_component};
use simcore::{bail_v, Ctx, R};
use std::sync::Arc;

#[derive(Clone, Copy, Debug, PartialEq, Eq)]
pub enum Evo {
    New,
    /// the very same values array (pointer-equal)
    Same,
    /// an equal copy in fresh memory
    EqualCopy,
    /// old dictionary is a strict prefix of the new one
    Extend,
    /// different values
    Replace,
    /// a strict prefix of the old one
    Shrink,
}

#[derive(Clone, Copy, Debug, PartialEq, Eq)]
pub enum Place {
    Top,
    InStruct,
    InList,
}

/// A dictionary-encoded column whose dictionary history the harness controls.
pub struct HistCol {
    pub key: DataType,
    pub strs: bool,
    pub nullable: bool,
    pub place: Place,
    cur: Vec<V>,
    arr: Option<ArrayRef>,
    fresh: i64,
    pub evos: Vec<Evo>,
}

impl HistCol {
    fn gen(ctx: &Ctx) -> Self {
        HistCol {
            key: ctx.pick(&[DataType::Int32, DataType::Int8, DataType::Int16, DataType::UInt8], "hd.key").clone(),
            strs: !ctx.chance(1, 3, "hd.int"),
            nullable: !ctx.chance(1, 4, "hd.nonnull"),
            place: *ctx.pick(&[Place::Top, Place::Top, Place::InStruct, Place::InList], "hd.place"),
            cur: vec![],
            arr: None,
            fresh: 0,
            evos: vec![],
        }
    }
    fn dict_type(&self) -> DataType {
        DataType::Dictionary(Box::new(self.key.clone()), Box::new(if self.strs { DataType::Utf8 } else { DataType::Int32 }))
    }
    pub fn field(&self, name: &str) -> Field {
        match self.place {
            Place::Top => Field::new(name, self.dict_type(), self.nullable),
            Place::InStruct => Field::new(name, DataType::Struct(Fields::from(vec![Field::new("k", DataType::Int32, false), Field::new("d", self.dict_type(), self.nullable)])), false),
            Place::InList => Field::new(name, DataType::List(Arc::new(Field::new("item", self.dict_type(), self.nullable))), true),
        }
    }
    fn fresh_value(&mut self) -> V {
        self.fresh += 1;
        if self.strs {
            V::Str(format!("v{}", self.fresh))
        } else {
            V::Int(self.fresh as i128 * 10)
        }
    }
    fn values_array(&self) -> ArrayRef {
        if self.strs {
            Arc::new(StringArray::from(self.cur.iter().map(|v| if let V::Str(s) = v { s.clone() } else { unreachable!() }).collect::<Vec<_>>()))
        } else {
            Arc::new(Int32Array::from(self.cur.iter().map(|v| if let V::Int(i) = v { *i as i32 } else { unreachable!() }).collect::<Vec<_>>()))
        }
    }
    /// Evolve the dictionary for the next batch.
    fn evolve(&mut self, ctx: &Ctx) -> Evo {
        let evo = if self.arr.is_none() {
            Evo::New
        } else {
            *ctx.pick(&[Evo::Same, Evo::Same, Evo::EqualCopy, Evo::Extend, Evo::Extend, Evo::Replace, Evo::Shrink], "hd.evo")
        };
        let evo = match evo {
            Evo::Shrink if self.cur.len() < 2 => Evo::EqualCopy,
            e => e,
        };
        match evo {
            Evo::New => {
                let n = 1 + ctx.below(4, "hd.n");
                self.cur = (0..n).map(|_| self.fresh_value()).collect();
                self.arr = Some(self.values_array());
            }
            Evo::Same => {}
            Evo::EqualCopy => self.arr = Some(self.values_array()),
            Evo::Extend => {
                for _ in 0..1 + ctx.below(3, "hd.ext") {
                    let v = self.fresh_value();
                    self.cur.push(v);
                }
                self.arr = Some(self.values_array());
            }
            Evo::Replace => {
                let n = 1 + ctx.below(4, "hd.n");
                self.cur = (0..n).map(|_| self.fresh_value()).collect();
                self.arr = Some(self.values_array());
            }
            Evo::Shrink => {
                let n = 1 + ctx.below(self.cur.len() - 1, "hd.shrink");
                self.cur.truncate(n);
                self.arr = Some(self.values_array());
            }
        }
        self.evos.push(evo);
        evo
    }
    fn dict_array(&self, keys: &[Option<usize>]) -> ArrayRef {
        fn mk<K: ArrowDictionaryKeyType>(keys: &[Option<usize>], values: ArrayRef) -> ArrayRef
        where
            K::Native: TryFrom<usize>,
        {
            let k: PrimitiveArray<K> = keys.iter().map(|k| k.map(|k| K::Native::try_from(k).ok().expect("key fits"))).collect();
            Arc::new(DictionaryArray::<K>::try_new(k, values).expect("hist dictionary"))
        }
        let values = self.arr.clone().expect("dictionary evolved");
        match self.key {
            DataType::Int8 => mk::<Int8Type>(keys, values),
            DataType::Int16 => mk::<Int16Type>(keys, values),
            DataType::UInt8 => mk::<UInt8Type>(keys, values),
            _ => mk::<Int32Type>(keys, values),
        }
    }
    fn key(&self, ctx: &Ctx) -> Option<usize> {
        if self.nullable && ctx.chance(1, 6, "hd.null") {
            None
        } else {
            Some(ctx.below(self.cur.len(), "hd.k"))
        }
    }
    fn denote(&self, k: Option<usize>) -> V {
        k.map(|k| self.cur[k].clone()).unwrap_or(V::Null)
    }
    /// One batch worth of this column: (array, logical values).
    fn column(&mut self, ctx: &Ctx, rows: usize) -> (ArrayRef, Vec<V>) {
        self.evolve(ctx);
        match self.place {
            Place::Top => {
                let keys: Vec<_> = (0..rows).map(|_| self.key(ctx)).collect();
                (self.dict_array(&keys), keys.iter().map(|k| self.denote(*k)).collect())
            }
            Place::InStruct => {
                let keys: Vec<_> = (0..rows).map(|_| self.key(ctx)).collect();
                let ks: Vec<i32> = (0..rows as i32).collect();
                let fields = match self.field("x").data_type() {
                    DataType::Struct(f) => f.clone(),
                    _ => unreachable!(),
                };
                let a = StructArray::try_new_with_length(fields, vec![Arc::new(Int32Array::from(ks.clone())), self.dict_array(&keys)], None, rows).expect("hist struct");
                (Arc::new(a), keys.iter().zip(ks).map(|(k, i)| V::Struct(vec![V::Int(i as i128), self.denote(*k)])).collect())
            }
            Place::InList => {
                let mut offsets = vec![0i32];
                let mut keys = Vec::new();
                let mut vals = Vec::new();
                let mut valid = Vec::new();
                for _ in 0..rows {
                    if ctx.chance(1, 6, "hd.list.null") {
                        valid.push(false);
                        vals.push(V::Null);
                    } else {
                        let n = ctx.below(4, "hd.list.n");
                        let ks: Vec<_> = (0..n).map(|_| self.key(ctx)).collect();
                        vals.push(V::List(ks.iter().map(|k| self.denote(*k)).collect()));
                        keys.extend(ks);
                        valid.push(true);
                    }
                    offsets.push(keys.len() as i32);
                }
                let item = match self.field("x").data_type() {
                    DataType::List(f) => f.clone(),
                    _ => unreachable!(),
                };
                let nulls = if valid.iter().all(|v| *v) { None } else { Some(NullBuffer::from(valid)) };
                let a = ListArray::try_new(item, OffsetBuffer::new(offsets.into()), self.dict_array(&keys), nulls).expect("hist list");
                (Arc::new(a), vals)
            }
        }
    }
}

pub struct Wl04 {
    pub schema: SchemaRef,
    pub batches: Vec<RecordBatch>,
    /// single-copy log: logical rows per batch
    pub log: Vec<Vec<Row>>,
    pub hist: Vec<HistCol>,
    /// generated (non-history) dictionary columns exist: their dictionaries differ from batch to batch
    pub gen_dicts: bool,
}

pub fn has_dict(dt: &DataType) -> bool {
    use DataType::*;
    match dt {
        Dictionary(_, _) => true,
        List(f) | LargeList(f) | ListView(f) | LargeListView(f) | FixedSizeList(f, _) | Map(f, _) => has_dict(f.data_type()),
        Struct(fs) => fs.iter().any(|f| has_dict(f.data_type())),
        Union(ufs, _) => ufs.iter().any(|(_, f)| has_dict(f.data_type())),
        RunEndEncoded(_, v) => has_dict(v.data_type()),
        _ => false,
    }
}

pub fn has_dense_union(dt: &DataType) -> bool {
    use DataType::*;
    match dt {
        Union(ufs, mode) => *mode == arrow_schema::UnionMode::Dense || ufs.iter().any(|(_, f)| has_dense_union(f.data_type())),
        List(f) | LargeList(f) | ListView(f) | LargeListView(f) | FixedSizeList(f, _) | Map(f, _) => has_dense_union(f.data_type()),
        Struct(fs) => fs.iter().any(|f| has_dense_union(f.data_type())),
        Dictionary(_, v) => has_dense_union(v),
        RunEndEncoded(_, v) => has_dense_union(v.data_type()),
        _ => false,
    }
}

/// `p.dict` decides whether generated columns may be dictionaries as well.
pub fn gen_wl(ctx: &Ctx, p: &Profile, max_batches: usize, max_rows: usize) -> Wl04 {
    let inner = gen::gen_schema(ctx, p);
    let nh = *ctx.pick(&[1usize, 0, 1, 2], "c04.hist");
    let mut hist: Vec<HistCol> = (0..nh).map(|_| HistCol::gen(ctx)).collect();
    let mut fields: Vec<Arc<Field>> = inner.fields().iter().cloned().collect();
    for (i, h) in hist.iter().enumerate() {
        fields.push(Arc::new(h.field(&format!("hd{i}"))));
    }
    let schema: SchemaRef = Arc::new(Schema::new_with_metadata(fields, inner.metadata().clone()));
    let nb = 1 + ctx.below(max_batches, "c04.batches");
    let mut batches = Vec::new();
    let mut log = Vec::new();
    for _ in 0..nb {
        let rows = ctx.size(max_rows, "c04.rows");
        // sometimes the written batch is a slice of a larger one
        let (lead, tail) = if ctx.chance(1, 3, "c04.sliced") { (ctx.below(4, "c04.lead"), ctx.below(3, "c04.tail")) } else { (0, 0) };
        let full = lead + rows + tail;
        let (lb, rb) = gen::gen_batch(ctx, &inner, full, p);
        let mut cols: Vec<ArrayRef> = rb.columns().to_vec();
        let mut lrows: Vec<Row> = lb.to_rows();
        for h in hist.iter_mut() {
            let (a, vals) = h.column(ctx, full);
            cols.push(a);
            for (r, v) in lrows.iter_mut().zip(vals) {
                r.push(v);
            }
        }
        let b = harness(|| RecordBatch::try_new_with_options(schema.clone(), cols, &RecordBatchOptions::new().with_row_count(Some(full))).expect("c04 batch"));
        batches.push(b.slice(lead, rows));
        log.push(lrows[lead..lead + rows].to_vec());
    }
    ctx.note("schema", serde_json::json!(gen::schema_sig(&schema, true)));
    ctx.note("batch_rows", serde_json::json!(log.iter().map(|b| b.len()).collect::<Vec<_>>()));
    ctx.note("dict_history", serde_json::json!(hist.iter().map(|h| format!("{:?}/{:?}: {:?}", h.place, h.key, h.evos)).collect::<Vec<_>>()));
    let gen_dicts = inner.fields().iter().any(|f| has_dict(f.data_type()));
    Wl04 { schema, batches, log, hist, gen_dicts }
}

impl Wl04 {
    /// Can the file format represent this history under the given dictionary handling?
    /// (replacement never; extension only as a delta)
    pub fn file_representable(&self, delta: bool) -> bool {
        if self.gen_dicts && self.batches.len() > 1 {
            return false;
        }
        self.hist.iter().all(|h| {
            h.evos.iter().all(|e| match e {
                Evo::New | Evo::Same | Evo::EqualCopy => true,
                Evo::Extend => delta,
                Evo::Replace | Evo::Shrink => false,
            })
        })
    }
    pub fn all_rows(&self) -> Vec<Row> {
        self.log.iter().flatten().cloned().collect()
    }
}

/// Outcome of one write -> transport -> read path.
pub struct Got {
    pub schema: Option<SchemaRef>,
    pub batches: Vec<RecordBatch>,
}

pub enum PathErr {
    /// the writer refused the history
    Write(String),
    Read(String),
}

fn benign_sink(ctx: &Ctx) -> SimSink {
    let rate = *ctx.pick(&[0u64, 2, 6], "c04.sink_rate");
    SimSink::new(ctx, Plan::benign(rate, ctx.chance(1, 2, "c04.sink_intr")))
}
fn benign_source(ctx: &Ctx, data: Vec<u8>) -> SimSource {
    let rate = *ctx.pick(&[0u64, 2, 6], "c04.src_rate");
    SimSource::new(ctx, Arc::new(data), Plan::benign(rate, ctx.chance(1, 2, "c04.src_intr")))
}

pub fn write_file(ctx: &Ctx, wl: &Wl04, cfg: &IpcCfg) -> Result<Vec<u8>, PathErr> {
    set_component("ipc.file_writer");
    let sink = benign_sink(ctx);
    let mut w = FileWriter::try_new_with_options(sink.clone(), &wl.schema, cfg.options()).map_err(|e| PathErr::Write(e.to_string()))?;
    for b in &wl.batches {
        w.write(b).map_err(|e| PathErr::Write(e.to_string()))?;
    }
    w.finish().map_err(|e| PathErr::Write(e.to_string()))?;
    drop(w);
    Ok(sink.data())
}

pub fn read_file(ctx: &Ctx, bytes: Vec<u8>, projection: Option<Vec<usize>>, buffered: bool) -> Result<Got, PathErr> {
    set_component("ipc.file_reader");
    let src = benign_source(ctx, bytes);
    macro_rules! go {
        ($r:expr) => {{
            let mut r = $r.map_err(|e| PathErr::Read(e.to_string()))?;
            let schema = r.schema();
            let mut batches = vec![];
            for b in &mut r {
                batches.push(b.map_err(|e| PathErr::Read(e.to_string()))?);
            }
            Ok(Got { schema: Some(schema), batches })
        }};
    }
    if buffered {
        go!(FileReader::try_new_buffered(src, projection))
    } else {
        go!(FileReader::try_new(src, projection))
    }
}

pub fn write_stream(ctx: &Ctx, wl: &Wl04, cfg: &IpcCfg) -> Result<Vec<u8>, PathErr> {
    set_component("ipc.stream_writer");
    let sink = benign_sink(ctx);
    let mut w = StreamWriter::try_new_with_options(sink.clone(), &wl.schema, cfg.options()).map_err(|e| PathErr::Write(e.to_string()))?;
    for b in &wl.batches {
        w.write(b).map_err(|e| PathErr::Write(e.to_string()))?;
    }
    w.finish().map_err(|e| PathErr::Write(e.to_string()))?;
    drop(w);
    Ok(sink.data())
}

pub fn encode_stream(wl: &Wl04, cfg: &IpcCfg) -> Result<Vec<u8>, PathErr> {
    set_component("ipc.stream_encoder");
    let mut e = StreamEncoder::try_new_with_options(&wl.schema, cfg.options()).map_err(|e| PathErr::Write(e.to_string()))?;
    let mut out = Vec::new();
    for b in &wl.batches {
        for buf in e.encode(b).map_err(|e| PathErr::Write(e.to_string()))? {
            out.extend_from_slice(buf.as_slice());
        }
    }
    for buf in e.finish().map_err(|e| PathErr::Write(e.to_string()))? {
        out.extend_from_slice(buf.as_slice());
    }
    Ok(out)
}

pub fn read_stream(ctx: &Ctx, bytes: Vec<u8>, projection: Option<Vec<usize>>, buffered: bool) -> Result<Got, PathErr> {
    set_component("ipc.stream_reader");
    let src = benign_source(ctx, bytes);
    macro_rules! go {
        ($r:expr) => {{
            let mut r = $r.map_err(|e| PathErr::Read(e.to_string()))?;
            let schema = r.schema();
            let mut batches = vec![];
            for b in &mut r {
                batches.push(b.map_err(|e| PathErr::Read(e.to_string()))?);
            }
            Ok(Got { schema: Some(schema), batches })
        }};
    }
    if buffered {
        go!(StreamReader::try_new_buffered(src, projection))
    } else {
        go!(StreamReader::try_new(src, projection))
    }
}

/// `StreamDecoder` fed tape-chosen chunks (the documented loop).
pub fn decode_stream(ctx: &Ctx, bytes: &[u8]) -> R<Result<Got, PathErr>> {
    set_component("ipc.stream_decoder");
    let mut dec = StreamDecoder::new();
    let mut batches = vec![];
    let mut pos = 0;
    let mut steps = 0u64;
    let max = *ctx.pick(&[bytes.len().max(1), 1, 7, 64, 1000], "c04.chunk_max");
    while pos < bytes.len() {
        let n = 1 + ctx.below(max.min(bytes.len() - pos), "c04.chunk");
        let mut buf = Buffer::from(bytes[pos..pos + n].to_vec());
        pos += n;
        while !buf.is_empty() {
            steps += 1;
            ctx.step();
            if steps > 2_000_000 {
                bail_v!(ctx, "hang", "ipc.stream_decoder/steps", "no progress within 2000000 decode calls");
            }
            match dec.decode(&mut buf) {
                Err(e) => return Ok(Err(PathErr::Read(e.to_string()))),
                Ok(None) => {}
                Ok(Some(b)) => batches.push(b),
            }
        }
    }
    if let Err(e) = dec.finish() {
        return Ok(Err(PathErr::Read(e.to_string())));
    }
    Ok(Ok(Got { schema: dec.schema(), batches }))
}

/// Remove every dictionary encoding from a field (names, nullability and metadata kept).
pub fn strip_dict(f: &Field) -> Field {
    fn ty(dt: &DataType) -> DataType {
        use DataType::*;
        match dt {
            Dictionary(_, v) => ty(v),
            List(f) => List(Arc::new(strip_dict(f))),
            LargeList(f) => LargeList(Arc::new(strip_dict(f))),
            ListView(f) => ListView(Arc::new(strip_dict(f))),
            LargeListView(f) => LargeListView(Arc::new(strip_dict(f))),
            FixedSizeList(f, n) => FixedSizeList(Arc::new(strip_dict(f)), *n),
            Map(f, s) => Map(Arc::new(strip_dict(f)), *s),
            Struct(fs) => Struct(fs.iter().map(|f| Arc::new(strip_dict(f))).collect()),
            Union(ufs, m) => {
                let (ids, fs): (Vec<i8>, Vec<Field>) = ufs.iter().map(|(i, f)| (i, strip_dict(f))).unzip();
                Union(UnionFields::try_new(ids, fs).expect("union"), *m)
            }
            RunEndEncoded(r, v) => RunEndEncoded(r.clone(), Arc::new(strip_dict(v))),
            other => other.clone(),
        }
    }
    Field::new(f.name(), ty(f.data_type()), f.is_nullable()).with_metadata(f.metadata().clone())
}

pub fn strip_dict_schema(s: &Schema) -> Schema {
    Schema::new_with_metadata(s.fields().iter().map(|f| strip_dict(f)).collect::<Vec<_>>(), s.metadata().clone())
}

/// Batch-by-batch comparison with the log (file / stream paths).
pub fn compare_batches(ctx: &Ctx, who: &str, wl: &Wl04, got: &Got, projection: Option<&[usize]>) -> R {
    let want_schema = match projection {
        Some(p) => harness(|| wl.schema.project(p).expect("projection")),
        None => wl.schema.as_ref().clone(),
    };
    if let Some(s) = &got.schema {
        let (a, b) = (gen::schema_sig(&want_schema, true), gen::schema_sig(s, true));
        if a != b {
            bail_v!(ctx, "schema_differs", &format!("{who}/schema"), "written schema {a} read back as {b}");
        }
    }
    if got.batches.len() != wl.batches.len() {
        bail_v!(ctx, "batch_count_differs", &format!("{who}/batches"), "{} batches written ({:?} rows), {} read back ({:?} rows)", wl.batches.len(), wl.log.iter().map(|b| b.len()).collect::<Vec<_>>(), got.batches.len(), got.batches.iter().map(|b| b.num_rows()).collect::<Vec<_>>());
    }
    for (i, (b, want)) in got.batches.iter().zip(&wl.log).enumerate() {
        if let Err(e) = gen::validate_batch(b) {
            bail_v!(ctx, "invalid_array", &format!("{who}/batch"), "batch {i} read back invalid: {e}");
        }
        let sig = gen::schema_sig(&b.schema(), true);
        if sig != gen::schema_sig(&want_schema, true) {
            bail_v!(ctx, "schema_differs", &format!("{who}/batch_schema"), "batch {i} has schema {sig}, expected {}", gen::schema_sig(&want_schema, true));
        }
        let rows = gen::rows_of(b);
        let want: Vec<Row> = match projection {
            Some(p) => want.iter().map(|r| p.iter().map(|c| r[*c].clone()).collect()).collect(),
            None => want.clone(),
        };
        if let Some(d) = gen::diff_rows(&want, &rows) {
            bail_v!(ctx, "rows_differ", &format!("{who}/rows"), "batch {i}: {d}");
        }
    }
    Ok(())
}

// ---------------------------------------------------------------------------------------------
// Flight: encoder -> (prost encode/decode, Pending patterns) -> decoder, on the manual executor
// ---------------------------------------------------------------------------------------------

use arrow_flight::decode::FlightRecordBatchStream;
use arrow_flight::encode::{DictionaryHandling as FlightDictHandling, FlightDataEncoder, FlightDataEncoderBuilder};
use arrow_flight::error::FlightError;
use arrow_flight::FlightData;
use futures::{Stream, StreamExt};
use prost::Message;
use simcore::aio::{Executor, Gate, OpFuture, SimStream};
use std::pin::Pin;
use std::task::{Context, Poll};

/// The gRPC hop: ordered, reliable, but every message is really serialised and parsed, and the receiving
/// side sees `Pending` on a tape-chosen pattern.
struct Channel {
    inner: FlightDataEncoder,
    ctx: Ctx,
    gate: Gate,
    pending: Option<OpFuture>,
    pending_rate: u64,
    messages: u64,
    bytes: u64,
}

impl Stream for Channel {
    type Item = Result<FlightData, FlightError>;
    fn poll_next(mut self: Pin<&mut Self>, cx: &mut Context<'_>) -> Poll<Option<Self::Item>> {
        let this = &mut *self;
        if let Some(op) = &mut this.pending {
            if op.poll_op(cx).is_pending() {
                return Poll::Pending;
            }
            this.pending = None;
        } else if this.pending_rate > 0 && this.ctx.chance(this.pending_rate, 16, "chan.pending") {
            this.ctx.fault("channel.pending", this.messages);
            let mut op = this.gate.op();
            if op.poll_op(cx).is_pending() {
                this.pending = Some(op);
                return Poll::Pending;
            }
        }
        match this.inner.poll_next_unpin(cx) {
            Poll::Pending => Poll::Pending,
            Poll::Ready(None) => Poll::Ready(None),
            Poll::Ready(Some(Err(e))) => Poll::Ready(Some(Err(e))),
            Poll::Ready(Some(Ok(fd))) => {
                let wire = fd.encode_to_vec();
                this.messages += 1;
                this.bytes += wire.len() as u64;
                this.ctx.ev("flight.msg", wire.len() as u64, fd.data_body.len() as u64);
                match FlightData::decode(wire.as_slice()) {
                    Ok(fd) => Poll::Ready(Some(Ok(fd))),
                    Err(e) => Poll::Ready(Some(Err(FlightError::DecodeError(format!("prost: {e}"))))),
                }
            }
        }
    }
}

#[derive(Clone, Debug)]
pub struct FlightCfg {
    pub max_size: usize,
    pub resend: bool,
    pub with_schema: bool,
    pub input_pending: u64,
    pub chan_pending: u64,
}

impl FlightCfg {
    pub fn gen(ctx: &Ctx) -> Self {
        FlightCfg {
            max_size: *ctx.pick(&[2 * 1024 * 1024, 1, 64, 300, 2000], "fl.max"),
            resend: ctx.chance(1, 2, "fl.resend"),
            with_schema: ctx.chance(1, 2, "fl.with_schema"),
            input_pending: *ctx.pick(&[0, 4, 12], "fl.in_pending"),
            chan_pending: *ctx.pick(&[0, 4, 12], "fl.chan_pending"),
        }
    }
}

pub struct FlightGot {
    pub got: Got,
    pub messages: u64,
}

pub fn flight_roundtrip(ctx: &Ctx, wl: &Wl04, cfg: &IpcCfg, fc: &FlightCfg) -> R<Result<FlightGot, PathErr>> {
    set_component("flight.encode_decode");
    let gate = Gate::new();
    let items: Vec<Result<RecordBatch, FlightError>> = wl.batches.iter().cloned().map(Ok).collect();
    let input = SimStream::new(ctx, &gate, items, fc.input_pending);
    let mut b = FlightDataEncoderBuilder::new()
        .with_options(cfg.options())
        .with_max_flight_data_size(fc.max_size)
        .with_dictionary_handling(if fc.resend { FlightDictHandling::Resend } else { FlightDictHandling::Hydrate });
    if fc.with_schema {
        b = b.with_schema(wl.schema.clone());
    }
    let enc = b.build(input);
    let chan = Channel { inner: enc, ctx: ctx.clone(), gate: gate.clone(), pending: None, pending_rate: fc.chan_pending, messages: 0, bytes: 0 };
    let mut dec = FlightRecordBatchStream::new_from_flight_data(chan);
    let mut ex = Executor::new(ctx, &gate);
    let mut batches = vec![];
    loop {
        match ex.block_on(dec.next(), "flight.encode_decode")? {
            None => break,
            Some(Ok(b)) => batches.push(b),
            Some(Err(e)) => return Ok(Err(PathErr::Read(e.to_string()))),
        }
        if batches.len() > 1_000_000 {
            bail_v!(ctx, "hang", "flight.encode_decode/endless", "decoder yielded more than 1000000 batches");
        }
    }
    ctx.count("polls", ex.polls);
    ctx.count("pendings", ex.pendings);
    if ex.pendings > 0 {
        ctx.probe("flight.pending_seen");
    }
    let schema = dec.schema().cloned();
    if batches.len() > wl.batches.len() {
        ctx.probe("flight.batches_split");
    }
    Ok(Ok(FlightGot { got: Got { schema, batches }, messages: 0 }))
}

/// arrow-rs declares union fields non-nullable by convention (`Field::new_union`: "Unions cannot be nullable"; a
/// union's nulls live in its children) and the Flight encoder rebuilds union fields that way, so the declared
/// nullability of a union field is not compared on the Flight path.
pub fn union_nullability_normalised(f: &Field) -> Field {
    fn ty(dt: &DataType) -> DataType {
        use DataType::*;
        match dt {
            Dictionary(k, v) => Dictionary(k.clone(), Box::new(ty(v))),
            List(f) => List(Arc::new(union_nullability_normalised(f))),
            LargeList(f) => LargeList(Arc::new(union_nullability_normalised(f))),
            ListView(f) => ListView(Arc::new(union_nullability_normalised(f))),
            LargeListView(f) => LargeListView(Arc::new(union_nullability_normalised(f))),
            FixedSizeList(f, n) => FixedSizeList(Arc::new(union_nullability_normalised(f)), *n),
            Map(f, s) => Map(Arc::new(union_nullability_normalised(f)), *s),
            Struct(fs) => Struct(fs.iter().map(|f| Arc::new(union_nullability_normalised(f))).collect()),
            Union(ufs, m) => {
                let (ids, fs): (Vec<i8>, Vec<Field>) = ufs.iter().map(|(i, f)| (i, union_nullability_normalised(f))).unzip();
                Union(UnionFields::try_new(ids, fs).expect("union"), *m)
            }
            RunEndEncoded(r, v) => RunEndEncoded(r.clone(), Arc::new(union_nullability_normalised(v))),
            other => other.clone(),
        }
    }
    let dt = ty(f.data_type());
    // (kept as a no-op since fix 4 of DESIGN 11.4: the encoder now preserves the declared nullability of union fields)
    let nullable = f.is_nullable();
    Field::new(f.name(), dt, nullable).with_metadata(f.metadata().clone())
}

fn flight_sig(s: &Schema) -> String {
    gen::schema_sig(&Schema::new_with_metadata(s.fields().iter().map(|f| union_nullability_normalised(f)).collect::<Vec<_>>(), s.metadata().clone()), true)
}

/// Flight comparison: concatenated rows, schema modulo the documented hydration.
pub fn compare_flight(ctx: &Ctx, who: &str, wl: &Wl04, got: &Got, hydrated: bool) -> R {
    let want = if hydrated { strip_dict_schema(&wl.schema) } else { wl.schema.as_ref().clone() };
    let want_sig = flight_sig(&want);
    if let Some(s) = &got.schema {
        let sig = flight_sig(s);
        if sig != want_sig {
            bail_v!(ctx, "schema_differs", &format!("{who}/schema"), "sent schema {want_sig} received as {sig}");
        }
    } else if !wl.batches.is_empty() {
        bail_v!(ctx, "schema_differs", &format!("{who}/schema"), "no schema was received although {} batches were sent", wl.batches.len());
    }
    let mut rows: Vec<Row> = vec![];
    for (i, b) in got.batches.iter().enumerate() {
        if let Err(e) = gen::validate_batch(b) {
            bail_v!(ctx, "invalid_array", &format!("{who}/batch"), "received batch {i} invalid: {e}");
        }
        let sig = flight_sig(&b.schema());
        if sig != want_sig {
            bail_v!(ctx, "schema_differs", &format!("{who}/batch_schema"), "received batch {i} has schema {sig}, expected {want_sig}");
        }
        rows.extend(gen::rows_of(b));
    }
    if let Some(d) = gen::diff_rows(&wl.all_rows(), &rows) {
        bail_v!(ctx, "rows_differ", &format!("{who}/rows"), "{} batches sent, {} received: {d}", wl.batches.len(), got.batches.len());
    }
    Ok(())
}
