//! Drivers shared by the C04 / C05 / C08 / C14 / C15 / C18 harnesses: each format is wrapped as a
//! `Fmt` (real writer + real reader over simulated seams).

pub mod avro;
pub mod c04;
pub mod c15;
pub mod c18;
pub mod ipc;
pub mod pq;
pub mod spill;
pub mod text;

use arrow_array::RecordBatch;
use arrow_schema::SchemaRef;
use gen::{types_api::Profile, LBatch, V};
use simcore::io::{Plan, SimSink, SourceState};
use simcore::Ctx;
use std::sync::{Arc, Mutex};

pub type Row = Vec<V>;

/// A generated workload: logical batches and their physical realisation.
pub struct Workload {
    pub schema: SchemaRef,
    pub batches: Vec<RecordBatch>,
    pub logical: Vec<LBatch>,
}

impl Workload {
    pub fn rows(&self) -> Vec<Row> {
        self.logical.iter().flat_map(|b| b.to_rows()).collect()
    }
    pub fn total_rows(&self) -> usize {
        self.logical.iter().map(|b| b.rows).sum()
    }
}

pub fn gen_workload(ctx: &Ctx, p: &Profile, max_batches: usize, max_rows: usize, allow_empty_batch: bool) -> Workload {
    gen_workload_from(ctx, p, max_batches, 0, max_rows, allow_empty_batch)
}

/// Batches of `min_rows + 0..=max_rows` rows.
pub fn gen_workload_from(ctx: &Ctx, p: &Profile, max_batches: usize, min_rows: usize, max_rows: usize, allow_empty_batch: bool) -> Workload {
    let schema = gen::gen_schema(ctx, p);
    let nb = 1 + ctx.below(max_batches, "wl.batches");
    let mut batches = Vec::new();
    let mut logical = Vec::new();
    for _ in 0..nb {
        let mut rows = min_rows + ctx.size(max_rows, "wl.rows");
        if rows == 0 && !allow_empty_batch {
            rows = 1;
        }
        let (lb, rb) = gen::gen_batch(ctx, &schema, rows, p);
        batches.push(rb);
        logical.push(lb);
    }
    ctx.note("schema", serde_json::json!(gen::schema_sig(&schema, false)));
    ctx.note("batch_rows", serde_json::json!(logical.iter().map(|b| b.rows).collect::<Vec<_>>()));
    Workload { schema, batches, logical }
}

/// What the simulated caller does with a writer after its first `Err`.
#[derive(Clone, Copy, Debug, PartialEq, Eq)]
pub enum Post {
    Drop,
    IntoInner,
}

#[derive(Debug, Default)]
pub struct WOut {
    /// every API call (constructor, write, flush, finish/close, into_inner) returned Ok
    pub api_ok: bool,
    pub first_err: Option<String>,
    /// name of the API call that failed first
    pub failed_call: Option<&'static str>,
    /// after an earlier API call had failed the caller still finished / closed the writer, and that call returned Ok
    pub finish_ok_after_error: bool,
    /// rows of the batches whose write() had returned Ok when the first call failed
    pub acked_rows: usize,
    /// raised by the simulator itself while driving the writer (lost wake-up, step budget)
    pub sim_violation: Option<simcore::Violation>,
}

impl WOut {
    pub fn ok() -> Self {
        WOut { api_ok: true, first_err: None, failed_call: None, finish_ok_after_error: false, acked_rows: 0, sim_violation: None }
    }
    pub fn fail(call: &'static str, e: impl std::fmt::Display) -> Self {
        WOut { api_ok: false, first_err: Some(e.to_string()), failed_call: Some(call), finish_ok_after_error: false, acked_rows: 0, sim_violation: None }
    }
}

pub struct ROut {
    /// rows handed out before the first error / end
    pub rows: Vec<Row>,
    pub batches: usize,
    pub err: Option<String>,
    /// a returned batch failed full validation
    pub invalid: Option<String>,
    pub src: Arc<Mutex<SourceState>>,
    pub schema_sig: Option<String>,
    pub max_batch_rows: usize,
    /// raised by the simulator itself while driving the reader (lost wake-up, step budget)
    pub sim_violation: Option<simcore::Violation>,
}

impl ROut {
    pub fn new(src: Arc<Mutex<SourceState>>) -> Self {
        ROut { rows: vec![], batches: 0, err: None, invalid: None, src, schema_sig: None, max_batch_rows: 0, sim_violation: None }
    }
    pub fn hard_fired(&self) -> usize {
        self.src.lock().unwrap_or_else(|p| p.into_inner()).hard_fired
    }
    pub fn hang(&self) -> bool {
        self.src.lock().unwrap_or_else(|p| p.into_inner()).hang
    }
    pub fn calls(&self) -> usize {
        self.src.lock().unwrap_or_else(|p| p.into_inner()).calls
    }
    /// Consume one result of a batch iterator; returns false when iteration must stop.
    pub fn take<E: std::fmt::Display>(&mut self, item: Option<Result<RecordBatch, E>>) -> bool {
        match item {
            None => false,
            Some(Err(e)) => {
                self.err = Some(e.to_string());
                false
            }
            Some(Ok(b)) => {
                if let Err(e) = gen::validate_batch(&b) {
                    self.invalid = Some(e);
                    return false;
                }
                self.batches += 1;
                self.max_batch_rows = self.max_batch_rows.max(b.num_rows());
                if self.schema_sig.is_none() {
                    self.schema_sig = Some(gen::schema_sig(&b.schema(), false));
                }
                // a run-end encoded column can legitimately denote an astronomical number of rows with a few bytes:
                // such a batch is valid, but its rows are not materialised
                if b.num_rows() > 2_000_000 || b.columns().iter().any(|c| gen::exceeds(c.as_ref(), 2_000_000)) {
                    return self.batches < 100_000;
                }
                // reading every value through the safe accessors is part of the validity oracle: a batch that passed
                // validation but makes an accessor panic is an invalid array
                match std::panic::catch_unwind(std::panic::AssertUnwindSafe(|| gen::rows_of(&b))) {
                    Ok(rows) => self.rows.extend(rows),
                    Err(_) => {
                        let shape: Vec<String> = b.columns().iter().map(|c| { let d = c.to_data(); format!("{}[len {} off {} children {:?}]", d.data_type(), d.len(), d.offset(), d.child_data().iter().map(|x| (x.len(), x.offset())).collect::<Vec<_>>()) }).collect();
                        self.invalid = Some(format!("a batch that passed full validation makes a safe accessor panic when its values are read: {}", shape.join("; ")));
                        return false;
                    }
                }
                // a reader that never stops is a hang as well
                self.batches < 100_000
            }
        }
    }
}

#[derive(Clone, Copy, Debug, PartialEq, Eq)]
pub enum Trunc {
    /// footer-based: every strict prefix must be rejected
    Reject,
    /// self-delimiting: a prefix of the original rows, then Err or end
    PrefixThenErrOrEnd,
    /// not covered by the property (CSV: a cut line is a valid shorter line)
    NotChecked,
}

/// One format instance = one generated workload + writer/reader options.
pub trait Fmt {
    /// e.g. "ipc.file"
    fn name(&self) -> &'static str;
    fn deterministic(&self) -> bool {
        true
    }
    fn trunc(&self) -> Trunc;
    /// Run the real writer over `sink` following the caller policy of DESIGN §3.5.
    fn write(&self, ctx: &Ctx, sink: SimSink, post: Post) -> WOut;
    /// Run the real reader over `data` with the given device behaviour.
    fn read(&self, ctx: &Ctx, data: Arc<Vec<u8>>, plan: Plan) -> ROut;
    /// Fix up nondeterministic output (Avro sync marker) so that runs are comparable.
    fn normalise(&self, _ctx: &Ctx, bytes: Vec<u8>) -> Vec<u8> {
        bytes
    }
    fn describe(&self) -> serde_json::Value;
}
