//! C15 engine: one Parquet file + one option set, read through the sync reader (reference), the async
//! stream (Stream / next_row_group / tokio AsyncRead+AsyncSeek) and the push decoder (try_decode /
//! try_next_reader / into_builder) under simulator-owned I/O schedules.

use crate::pq::PqCfg;
use crate::Row;
use arrow_array::cast::AsArray;
use arrow_array::types::Int64Type;
use arrow_array::{ArrayRef, BooleanArray, Int64Array, RecordBatch};
use arrow_schema::{DataType, Field, Schema, SchemaRef};
use bytes::Bytes;
use futures::future::BoxFuture;
use futures::{FutureExt, StreamExt};
use gen::types_api::{Leaf, Profile};
use parquet::arrow::arrow_reader::{
    ArrowPredicate, ArrowPredicateFn, ArrowReaderBuilder, ArrowReaderOptions, ParquetRecordBatchReader, ParquetRecordBatchReaderBuilder, RowFilter, RowSelection,
    RowSelectionPolicy, RowSelector,
};
use parquet::arrow::async_reader::{AsyncFileReader, ParquetRecordBatchStreamBuilder};
use parquet::arrow::push_decoder::ParquetPushDecoderBuilder;
use parquet::arrow::{ArrowWriter, ProjectionMask};
use parquet::errors::ParquetError;
use parquet::file::metadata::{PageIndexPolicy, ParquetMetaData, ParquetMetaDataPushDecoder, ParquetMetaDataReader};
use parquet::schema::types::SchemaDescriptor;
use parquet::DecodeResult;
use simcore::aio::{Executor, Gate, OpFuture, SimAsyncSource};
use simcore::io::{Plan, SimSource};
use simcore::runner::set_component;
use simcore::{bail_v, Ctx, R};
use std::ops::Range;
use std::sync::{Arc, Mutex};

pub fn c15_profile(ctx: &Ctx) -> Profile {
    let mut p = Profile::flat(&[
        Leaf::Bool, Leaf::I8, Leaf::I32, Leaf::I64, Leaf::U16, Leaf::U64, Leaf::F32, Leaf::F64, Leaf::Utf8, Leaf::LargeUtf8, Leaf::Binary, Leaf::Date32, Leaf::Ts, Leaf::Dec128, Leaf::Fsb,
        Leaf::Utf8View, Leaf::BinaryView,
    ]);
    p.strukt = true;
    p.list = true;
    p.dict = true;
    p.max_depth = 2;
    p.max_cols = 3;
    p.min_cols = 1;
    if ctx.chance(1, 2, "c15.flat") {
        p.max_depth = 0;
    }
    p
}

fn has_zero_fsb(dt: &DataType) -> bool {
    match dt {
        DataType::FixedSizeBinary(0) => true,
        DataType::List(f) | DataType::LargeList(f) | DataType::FixedSizeList(f, _) | DataType::Map(f, _) => has_zero_fsb(f.data_type()),
        DataType::Struct(fs) => fs.iter().any(|f| has_zero_fsb(f.data_type())),
        DataType::Dictionary(_, v) => has_zero_fsb(v),
        _ => false,
    }
}

pub struct PqFile {
    pub bytes: Bytes,
    pub schema: SchemaRef,
    pub total_rows: usize,
    pub cfg: PqCfg,
    /// metadata decoded by the pull reader with the page index loaded (describes the file; never handed to a reader under test)
    pub meta: Arc<ParquetMetaData>,
}

impl PqFile {
    pub fn num_leaves(&self) -> usize {
        self.meta.file_metadata().schema_descr().num_columns()
    }
    pub fn num_roots(&self) -> usize {
        self.meta.file_metadata().schema_descr().root_schema().get_fields().len()
    }
    pub fn rg_rows(&self) -> Vec<usize> {
        self.meta.row_groups().iter().map(|r| r.num_rows() as usize).collect()
    }
}

/// Write a small multi-row-group file whose first column is a unique ascending row id.
/// `Ok(None)`: the fault-free writer refused or failed on this workload (nothing to read; skipped).
pub fn gen_file(ctx: &Ctx, max_rows: usize) -> R<Option<PqFile>> {
    let p = c15_profile(ctx);
    let mut inner = gen::gen_schema(ctx, &p);
    for _ in 0..8 {
        if !inner.fields().iter().any(|f| has_zero_fsb(f.data_type())) {
            break;
        }
        // ArrowWriter panics on FixedSizeBinary(0) (fault-free; outside C15): draw another schema
        inner = gen::gen_schema(ctx, &p);
    }
    if inner.fields().iter().any(|f| has_zero_fsb(f.data_type())) {
        ctx.count("skipped", 1);
        ctx.count("skipped.zero_width_fsb", 1);
        return Ok(None);
    }
    let mut fields = vec![Arc::new(Field::new("rid", DataType::Int64, false))];
    fields.extend(inner.fields().iter().cloned());
    let schema: SchemaRef = Arc::new(Schema::new(fields));
    let nb = 1 + ctx.below(3, "c15.batches");
    let mut batches = Vec::new();
    let mut next = 0i64;
    for _ in 0..nb {
        let rows = 1 + ctx.below(max_rows, "c15.rows");
        let (_lb, rb) = gen::gen_batch(ctx, &inner, rows, &p);
        let rid: ArrayRef = Arc::new(Int64Array::from_iter_values(next..next + rows as i64));
        next += rows as i64;
        let mut cols = vec![rid];
        cols.extend(rb.columns().iter().cloned());
        batches.push(simcore::runner::harness(|| RecordBatch::try_new(schema.clone(), cols).expect("c15 batch")));
    }
    let total = next as usize;
    let mut cfg = PqCfg::gen(ctx);
    // several row groups, several pages per chunk
    let parts = 1 + ctx.below(6, "c15.rgs");
    cfg.rg_rows = (total / parts).max(1);
    cfg.page_rows = *ctx.pick(&[3, 1, 2, 5, 10, 20000], "c15.pagerows");
    cfg.page_index = !ctx.chance(1, 3, "c15.nopageindex");
    cfg.reader_batch = *ctx.pick(&[7, 1, 2, 3, 16, 1024], "c15.batch");
    set_component("parquet.arrow_writer(reference)");
    let mut buf = Vec::new();
    // (a writer that fails or panics on this configuration is C05's matter: nothing to read here)
    let written = std::panic::catch_unwind(std::panic::AssertUnwindSafe(|| -> Result<(), ParquetError> {
        let mut w = ArrowWriter::try_new(&mut buf, schema.clone(), Some(cfg.props_for(&schema)))?;
        for b in &batches {
            w.write(b)?;
        }
        w.close()?;
        Ok(())
    }))
    .unwrap_or_else(|_| Err(ParquetError::General("the writer panicked".into())));
    if let Err(e) = written {
        ctx.count("skipped", 1);
        ctx.count("skipped.reference_write_failed", 1);
        ctx.note("skipped", serde_json::json!(e.to_string()));
        return Ok(None);
    }
    let bytes = Bytes::from(buf);
    let meta = match ParquetMetaDataReader::new().with_page_index_policy(PageIndexPolicy::Optional).parse_and_finish(&bytes) {
        Ok(m) => Arc::new(m),
        Err(e) => {
            ctx.count("skipped", 1);
            ctx.count("skipped.reference_metadata_failed", 1);
            ctx.note("skipped", serde_json::json!(e.to_string()));
            return Ok(None);
        }
    };
    ctx.note("file", serde_json::json!({"len": bytes.len(), "rows": total, "row_groups": meta.num_row_groups(), "schema": gen::schema_sig(&schema, false), "cfg": format!("{cfg:?}")}));
    ctx.ev_bytes("c15.file", &bytes);
    Ok(Some(PqFile { bytes, schema, total_rows: total, cfg, meta }))
}

#[derive(Clone, Debug)]
pub enum PredKind {
    /// (a*id + b) mod m < t
    Mod { a: i64, b: i64, m: i64, t: i64 },
    /// lo <= id < hi
    Rng { lo: i64, hi: i64 },
    All,
    Nothing,
}

#[derive(Clone, Debug)]
pub struct Pred {
    pub kind: PredKind,
    /// leaves besides the row id that the predicate declares it reads
    pub extra_leaves: Vec<usize>,
    /// every n-th row id evaluates to NULL (= not selected)
    pub null_every: i64,
}

impl Pred {
    fn eval(&self, id: i64) -> Option<bool> {
        if self.null_every > 0 && id % self.null_every == 0 {
            return None;
        }
        Some(match &self.kind {
            PredKind::Mod { a, b, m, t } => (a * id + b).rem_euclid(*m) < *t,
            PredKind::Rng { lo, hi } => id >= *lo && id < *hi,
            PredKind::All => true,
            PredKind::Nothing => false,
        })
    }
    fn build(&self, sd: &SchemaDescriptor) -> Box<dyn ArrowPredicate> {
        let mut leaves = vec![0usize];
        leaves.extend(self.extra_leaves.iter().copied());
        let me = self.clone();
        Box::new(ArrowPredicateFn::new(ProjectionMask::leaves(sd, leaves), move |b: RecordBatch| {
            let ids = b.column(0).as_primitive::<Int64Type>();
            Ok(BooleanArray::from((0..ids.len()).map(|i| me.eval(ids.value(i))).collect::<Vec<_>>()))
        }))
    }
}

#[derive(Clone, Debug)]
pub struct ROpts {
    pub page_index: bool,
    pub projection: Option<Vec<usize>>,
    pub projection_roots: bool,
    pub row_groups: Option<Vec<usize>>,
    /// (select?, count)
    pub selection: Option<Vec<(bool, usize)>>,
    pub preds: Vec<Pred>,
    pub offset: Option<usize>,
    pub limit: Option<usize>,
    pub batch_size: usize,
    pub policy: u8,
    pub cache: Option<usize>,
}

impl ROpts {
    pub fn gen(ctx: &Ctx, f: &PqFile) -> Self {
        let nleaves = f.num_leaves();
        let nroots = f.num_roots();
        let rg_rows = f.rg_rows();
        let nrg = rg_rows.len();
        let projection_roots = ctx.chance(1, 3, "o.roots");
        let projection = if ctx.chance(1, 2, "o.proj") {
            let n = if projection_roots { nroots } else { nleaves };
            let mut v: Vec<usize> = (0..n).filter(|_| ctx.chance(1, 2, "o.proj.take")).collect();
            if v.is_empty() && !ctx.chance(1, 8, "o.proj.empty") {
                v.push(ctx.below(n, "o.proj.one"));
            }
            Some(v)
        } else {
            None
        };
        let row_groups = if nrg > 0 && ctx.chance(1, 3, "o.rgs") {
            let mut v: Vec<usize> = (0..nrg).filter(|_| ctx.chance(1, 2, "o.rg.take")).collect();
            if ctx.chance(1, 3, "o.rg.shuffle") {
                for i in (1..v.len()).rev() {
                    v.swap(i, ctx.below(i + 1, "o.rg.swap"));
                }
            }
            Some(v)
        } else {
            None
        };
        let scanned: usize = match &row_groups {
            Some(v) => v.iter().map(|i| rg_rows[*i]).sum(),
            None => rg_rows.iter().sum(),
        };
        let selection = if scanned > 0 && ctx.chance(1, 2, "o.sel") {
            let mut left = scanned;
            let mut v = Vec::new();
            let mut sel = ctx.chance(1, 2, "o.sel.first");
            let style = ctx.draw(3, "o.sel.style");
            while left > 0 {
                let max = match style {
                    0 => 3,
                    1 => 12,
                    _ => left,
                };
                let mut n = ctx.below(max.min(left) + 1, "o.sel.n");
                if n == 0 && !ctx.chance(1, 4, "o.sel.emptyrun") {
                    n = 1;
                }
                v.push((sel, n));
                left -= n;
                sel = !sel;
            }
            Some(v)
        } else {
            None
        };
        let npred = *ctx.pick(&[0usize, 1, 1, 2, 3], "o.npred");
        let total = f.total_rows as i64;
        let preds = (0..npred)
            .map(|_| {
                let kind = match ctx.draw(12, "o.pred.kind") {
                    0..=3 => {
                        let m = 2 + ctx.below(9, "o.pred.m") as i64;
                        PredKind::Mod { a: 1 + ctx.below(7, "o.pred.a") as i64, b: ctx.below(11, "o.pred.b") as i64, m, t: (m + 1) / 2 + ctx.below((m / 2) as usize, "o.pred.t") as i64 }
                    }
                    4..=8 => {
                        let lo = ctx.below(total as usize / 2 + 1, "o.pred.lo") as i64;
                        PredKind::Rng { lo, hi: lo + (total - lo) / 2 + ctx.below(((total - lo) / 2) as usize + 1, "o.pred.len") as i64 }
                    }
                    9 | 10 => PredKind::All,
                    _ => PredKind::Nothing,
                };
                let extra_leaves = if nleaves > 1 && ctx.chance(1, 2, "o.pred.extra") { vec![1 + ctx.below(nleaves - 1, "o.pred.leaf")] } else { vec![] };
                Pred { kind, extra_leaves, null_every: if ctx.chance(1, 5, "o.pred.nulls") { 2 + ctx.below(5, "o.pred.nullevery") as i64 } else { 0 } }
            })
            .collect();
        ROpts {
            page_index: f.cfg.page_index,
            projection,
            projection_roots,
            row_groups,
            selection,
            preds,
            offset: if ctx.chance(1, 4, "o.offset") { Some(if ctx.chance(1, 8, "o.offset.all") { scanned + 1 } else { ctx.below(scanned / 2 + 1, "o.offset.n") }) } else { None },
            limit: if ctx.chance(1, 4, "o.limit") { Some(if ctx.chance(1, 8, "o.limit.zero") { 0 } else { 1 + ctx.below(scanned + 1, "o.limit.n") }) } else { None },
            batch_size: f.cfg.reader_batch,
            policy: ctx.draw(4, "o.policy") as u8,
            cache: match ctx.draw(4, "o.cache") {
                0 => None,
                1 => Some(0),
                2 => Some(64),
                _ => Some(1 << 24),
            },
        }
    }

    pub fn options(&self) -> ArrowReaderOptions {
        ArrowReaderOptions::new().with_page_index_policy(if self.page_index { PageIndexPolicy::Optional } else { PageIndexPolicy::Skip })
    }

    pub fn apply<T>(&self, mut b: ArrowReaderBuilder<T>) -> ArrowReaderBuilder<T> {
        let sd = b.metadata().file_metadata().schema_descr_ptr();
        b = b.with_batch_size(self.batch_size);
        if let Some(p) = &self.projection {
            b = b.with_projection(if self.projection_roots { ProjectionMask::roots(&sd, p.iter().copied()) } else { ProjectionMask::leaves(&sd, p.iter().copied()) });
        }
        if let Some(r) = &self.row_groups {
            b = b.with_row_groups(r.clone());
        }
        if let Some(s) = &self.selection {
            b = b.with_row_selection(RowSelection::from(s.iter().map(|(sel, n)| if *sel { RowSelector::select(*n) } else { RowSelector::skip(*n) }).collect::<Vec<_>>()));
        }
        if !self.preds.is_empty() {
            b = b.with_row_filter(RowFilter::new(self.preds.iter().map(|p| p.build(&sd)).collect()));
        }
        if let Some(o) = self.offset {
            b = b.with_offset(o);
        }
        if let Some(l) = self.limit {
            b = b.with_limit(l);
        }
        b = match self.policy {
            1 => b.with_row_selection_policy(RowSelectionPolicy::Selectors),
            2 => b.with_row_selection_policy(RowSelectionPolicy::Mask),
            3 => b.with_row_selection_policy(RowSelectionPolicy::Auto { threshold: 2 }),
            _ => b,
        };
        if let Some(c) = self.cache {
            b = b.with_max_predicate_cache_size(c);
        }
        b
    }
}

/// What one front end returned.
pub struct Front {
    pub batches: Vec<RecordBatch>,
    pub err: Option<String>,
}

impl Front {
    fn err(e: impl std::fmt::Display) -> Self {
        Front { batches: vec![], err: Some(e.to_string()) }
    }
}

pub fn sync_reference(f: &PqFile, o: &ROpts) -> Front {
    set_component("parquet.sync_reader(reference)");
    let b = match ParquetRecordBatchReaderBuilder::try_new_with_options(f.bytes.clone(), o.options()) {
        Ok(b) => b,
        Err(e) => return Front::err(e),
    };
    let r = match o.apply(b).build() {
        Ok(r) => r,
        Err(e) => return Front::err(e),
    };
    let mut out = Front { batches: vec![], err: None };
    for x in r {
        match x {
            Ok(b) => out.batches.push(b),
            Err(e) => {
                out.err = Some(e.to_string());
                break;
            }
        }
    }
    out
}

fn check_range(ctx: &Ctx, bad: &Mutex<Option<String>>, who: &str, r: &Range<u64>, len: u64) -> bool {
    if r.start > r.end || r.end > len {
        let mut g = bad.lock().unwrap_or_else(|p| p.into_inner());
        if g.is_none() {
            *g = Some(format!("{who} requested {}..{} of a {len}-byte file", r.start, r.end));
        }
        ctx.ev("bad_range", r.start, r.end);
        return false;
    }
    true
}

/// Simulated remote file: every fetch is a future the scheduler completes when it likes.
pub struct SimAsyncFile {
    data: Bytes,
    ctx: Ctx,
    gate: Gate,
    /// implement get_byte_ranges natively (all ranges in flight at once) instead of the per-range default
    vectored: bool,
    /// None: metadata is decoded from fetched bytes
    meta: Option<Arc<ParquetMetaData>>,
    prefetch: Option<usize>,
    pending_rate: u64,
    pub bad: Arc<Mutex<Option<String>>>,
    pub fetches: Arc<Mutex<Vec<Range<u64>>>>,
}

impl SimAsyncFile {
    fn start(&self, range: &Range<u64>) -> (Option<OpFuture>, Result<Bytes, ParquetError>) {
        self.fetches.lock().unwrap_or_else(|p| p.into_inner()).push(range.clone());
        self.ctx.ev("fetch", range.start, range.end);
        if !check_range(&self.ctx, &self.bad, "async reader", range, self.data.len() as u64) {
            return (None, Err(ParquetError::EOF(format!("simulated file: range {range:?} outside the file"))));
        }
        let op = if self.pending_rate > 0 && self.ctx.chance(self.pending_rate, 16, "afile.pending") {
            self.ctx.fault("afile.pending", range.start);
            Some(self.gate.op())
        } else {
            None
        };
        (op, Ok(self.data.slice(range.start as usize..range.end as usize)))
    }
}

impl AsyncFileReader for SimAsyncFile {
    fn get_bytes(&mut self, range: Range<u64>) -> BoxFuture<'_, parquet::errors::Result<Bytes>> {
        let (op, res) = self.start(&range);
        async move {
            if let Some(op) = op {
                op.await;
            }
            res
        }
        .boxed()
    }

    fn get_byte_ranges(&mut self, ranges: Vec<Range<u64>>) -> BoxFuture<'_, parquet::errors::Result<Vec<Bytes>>> {
        if !self.vectored {
            // the trait's default: one get_bytes after the other
            return async move {
                let mut result = Vec::with_capacity(ranges.len());
                for range in ranges {
                    result.push(self.get_bytes(range).await?);
                }
                Ok(result)
            }
            .boxed();
        }
        self.ctx.probe("async.vectored_fetch");
        let started: Vec<_> = ranges.iter().map(|r| self.start(r)).collect();
        async move {
            let mut out = Vec::with_capacity(started.len());
            for (op, res) in started {
                if let Some(op) = op {
                    op.await;
                }
                out.push(res?);
            }
            Ok(out)
        }
        .boxed()
    }

    fn get_metadata<'a>(&'a mut self, options: Option<&'a ArrowReaderOptions>) -> BoxFuture<'a, parquet::errors::Result<Arc<ParquetMetaData>>> {
        if let Some(m) = self.meta.clone() {
            let op = if self.pending_rate > 0 && self.ctx.chance(self.pending_rate, 16, "afile.meta.pending") { Some(self.gate.op()) } else { None };
            return async move {
                if let Some(op) = op {
                    op.await;
                }
                Ok(m)
            }
            .boxed();
        }
        self.ctx.probe("async.metadata_fetched");
        let len = self.data.len() as u64;
        let prefetch = self.prefetch;
        async move {
            let r = ParquetMetaDataReader::new().with_arrow_reader_options(options).with_prefetch_hint(prefetch);
            Ok(Arc::new(r.load_and_finish(self, len).await?))
        }
        .boxed()
    }
}

fn new_async_file(ctx: &Ctx, gate: &Gate, f: &PqFile, o: &ROpts) -> SimAsyncFile {
    let meta = if ctx.chance(1, 2, "afile.meta_fetched") { None } else { Some(load_meta(f, o)) };
    SimAsyncFile {
        data: f.bytes.clone(),
        ctx: ctx.clone(),
        gate: gate.clone(),
        vectored: ctx.chance(1, 2, "afile.vectored"),
        meta,
        prefetch: *ctx.pick(&[None, Some(8), Some(64), Some(1 << 20)], "afile.prefetch"),
        pending_rate: *ctx.pick(&[0, 4, 10, 16], "afile.pending_rate"),
        bad: Arc::new(Mutex::new(None)),
        fetches: Arc::new(Mutex::new(Vec::new())),
    }
}

/// Metadata as a caller would supply it up front (decoded by the pull metadata reader with the run's page-index policy).
fn load_meta(f: &PqFile, o: &ROpts) -> Arc<ParquetMetaData> {
    let policy = if o.page_index { PageIndexPolicy::Optional } else { PageIndexPolicy::Skip };
    Arc::new(simcore::runner::harness(|| ParquetMetaDataReader::new().with_page_index_policy(policy).parse_and_finish(&f.bytes).expect("metadata of a file the reference could read")))
}

macro_rules! pq_try {
    ($e:expr) => {
        match $e {
            Ok(v) => v,
            Err(e) => return Ok(Front::err(e)),
        }
    };
}

/// `Stream` front end.
pub fn async_stream(ctx: &Ctx, f: &PqFile, o: &ROpts) -> R<Front> {
    set_component("parquet.async_stream");
    let gate = Gate::new();
    let file = new_async_file(ctx, &gate, f, o);
    let bad = file.bad.clone();
    let mut ex = Executor::new(ctx, &gate);
    let builder = pq_try!(ex.block_on(ParquetRecordBatchStreamBuilder::new_with_options(file, o.options()), "parquet.async_stream.builder")?);
    let mut stream = pq_try!(o.apply(builder).build());
    let mut out = Front { batches: vec![], err: None };
    loop {
        match ex.block_on(stream.next(), "parquet.async_stream")? {
            Some(Ok(b)) => out.batches.push(b),
            Some(Err(e)) => {
                out.err = Some(e.to_string());
                break;
            }
            None => break,
        }
        if out.batches.len() > 100_000 {
            bail_v!(ctx, "hang", "parquet.async_stream/endless", "stream yielded more than 100000 batches");
        }
    }
    ctx.count("polls", ex.polls);
    ctx.count("pendings", ex.pendings);
    if ex.pendings > 0 {
        ctx.probe("async.pending_seen");
    }
    if let Some(b) = bad.lock().unwrap_or_else(|p| p.into_inner()).clone() {
        bail_v!(ctx, "range_outside_file", "parquet.async_stream/fetch", "{b}");
    }
    Ok(out)
}

/// Row-group-at-a-time front end: `next_row_group()`; readers are drained right away or later.
pub fn async_row_groups(ctx: &Ctx, f: &PqFile, o: &ROpts) -> R<Front> {
    set_component("parquet.async_next_row_group");
    let gate = Gate::new();
    let file = new_async_file(ctx, &gate, f, o);
    let bad = file.bad.clone();
    let mut ex = Executor::new(ctx, &gate);
    let builder = pq_try!(ex.block_on(ParquetRecordBatchStreamBuilder::new_with_options(file, o.options()), "parquet.async_next_row_group.builder")?);
    let mut stream = pq_try!(o.apply(builder).build());
    let mut out = Front { batches: vec![], err: None };
    let deferred = ctx.chance(1, 2, "arg.deferred");
    let mut held: Vec<ParquetRecordBatchReader> = Vec::new();
    let mut rounds = 0;
    loop {
        rounds += 1;
        if rounds > 10_000 {
            bail_v!(ctx, "hang", "parquet.async_next_row_group/endless", "next_row_group returned more than 10000 readers");
        }
        match ex.block_on(stream.next_row_group(), "parquet.async_next_row_group")? {
            Ok(Some(r)) => {
                ctx.probe("async.row_group_reader");
                if deferred && ctx.chance(2, 3, "arg.hold") {
                    held.push(r);
                } else {
                    for r in held.drain(..).chain(std::iter::once(r)) {
                        if let Some(e) = drain(r, &mut out.batches) {
                            out.err = Some(e);
                            break;
                        }
                    }
                    if out.err.is_some() {
                        break;
                    }
                }
            }
            Ok(None) => break,
            Err(e) => {
                out.err = Some(e.to_string());
                break;
            }
        }
    }
    if out.err.is_none() {
        if !held.is_empty() {
            ctx.probe("async.row_group_reader_drained_late");
        }
        for r in held.drain(..) {
            if let Some(e) = drain(r, &mut out.batches) {
                out.err = Some(e);
                break;
            }
        }
    }
    ctx.count("polls", ex.polls);
    ctx.count("pendings", ex.pendings);
    if let Some(b) = bad.lock().unwrap_or_else(|p| p.into_inner()).clone() {
        bail_v!(ctx, "range_outside_file", "parquet.async_next_row_group/fetch", "{b}");
    }
    Ok(out)
}

fn drain(r: ParquetRecordBatchReader, into: &mut Vec<RecordBatch>) -> Option<String> {
    for x in r {
        match x {
            Ok(b) => into.push(b),
            Err(e) => return Some(e.to_string()),
        }
    }
    None
}

/// The blanket `AsyncFileReader for AsyncRead + AsyncSeek` over a source with short reads and `Pending`.
pub fn async_tokio(ctx: &Ctx, f: &PqFile, o: &ROpts) -> R<Front> {
    set_component("parquet.async_tokio_io");
    let gate = Gate::new();
    let plan = Plan::benign(*ctx.pick(&[0, 2, 6], "atok.benign"), false);
    let src = SimSource::new(ctx, Arc::new(f.bytes.to_vec()), plan);
    let file = SimAsyncSource::new(ctx, &gate, src, *ctx.pick(&[0, 3, 8], "atok.pending_rate"));
    let mut ex = Executor::new(ctx, &gate);
    let builder = pq_try!(ex.block_on(ParquetRecordBatchStreamBuilder::new_with_options(file, o.options()), "parquet.async_tokio_io.builder")?);
    let mut stream = pq_try!(o.apply(builder).build());
    let mut out = Front { batches: vec![], err: None };
    loop {
        match ex.block_on(stream.next(), "parquet.async_tokio_io")? {
            Some(Ok(b)) => out.batches.push(b),
            Some(Err(e)) => {
                out.err = Some(e.to_string());
                break;
            }
            None => break,
        }
        if out.batches.len() > 100_000 {
            bail_v!(ctx, "hang", "parquet.async_tokio_io/endless", "stream yielded more than 100000 batches");
        }
    }
    ctx.count("polls", ex.polls);
    ctx.count("pendings", ex.pendings);
    Ok(out)
}

/// Delivery schedule for one `NeedsData` request. Returns true iff every requested range was supplied
/// (each inside one supplied range) by the time it returns.
fn supply(ctx: &Ctx, file: &Bytes, ranges: &[Range<u64>], policy: u64, allow_partial: bool, mut push: impl FnMut(Vec<Range<u64>>, Vec<Bytes>) -> Result<(), ParquetError>) -> Result<bool, ParquetError> {
    let len = file.len() as u64;
    let get = |r: &Range<u64>| file.slice(r.start as usize..r.end as usize);
    // policy 0..=7: the same delivery mode for every request of this execution; otherwise a mode per request
    let mode = if policy < 8 { policy } else { ctx.draw(if allow_partial { 9 } else { 8 }, "supply.mode") };
    ctx.shape("supply", mode, ranges.len() as u64);
    match mode {
        0 => {
            ctx.probe("push.supply_exact");
            push(ranges.to_vec(), ranges.iter().map(get).collect())?;
        }
        1 => {
            ctx.probe("push.supply_shuffled");
            let mut v = ranges.to_vec();
            for i in (1..v.len()).rev() {
                v.swap(i, ctx.below(i + 1, "supply.swap"));
            }
            let d = v.iter().map(get).collect();
            push(v, d)?;
        }
        2 => {
            ctx.probe("push.supply_one_call_per_range");
            for r in ranges {
                push(vec![r.clone()], vec![get(r)])?;
            }
        }
        3 => {
            ctx.probe("push.supply_superset");
            let v: Vec<Range<u64>> = ranges
                .iter()
                .map(|r| {
                    let a = ctx.below(17, "supply.widen_lo") as u64;
                    let b = ctx.below(17, "supply.widen_hi") as u64;
                    r.start.saturating_sub(a)..(r.end + b).min(len)
                })
                .collect();
            let d = v.iter().map(get).collect();
            push(v, d)?;
        }
        4 => {
            ctx.probe("push.supply_whole_file");
            push(vec![0..len], vec![file.clone()])?;
        }
        5 => {
            ctx.probe("push.supply_duplicates");
            let mut v = ranges.to_vec();
            v.extend(ranges.iter().filter(|_| ctx.chance(1, 2, "supply.dup")).cloned().collect::<Vec<_>>());
            let d = v.iter().map(get).collect();
            push(v, d)?;
            if ctx.chance(1, 2, "supply.dup_again") {
                push(ranges.to_vec(), ranges.iter().map(get).collect())?;
            }
        }
        6 => {
            ctx.probe("push.supply_with_extras");
            let mut v = Vec::new();
            for r in ranges {
                if ctx.chance(1, 2, "supply.extra") && len > 0 {
                    let s = ctx.below(len as usize, "supply.extra_lo") as u64;
                    let e = s + ctx.below((len - s) as usize + 1, "supply.extra_len") as u64;
                    v.push(s..e);
                }
                v.push(r.clone());
            }
            let d = v.iter().map(get).collect();
            push(v, d)?;
        }
        7 => {
            ctx.probe("push.supply_one_big_cover");
            // one buffer spanning all requested ranges
            let s = ranges.iter().map(|r| r.start).min().unwrap_or(0);
            let e = ranges.iter().map(|r| r.end).max().unwrap_or(0).max(s);
            push(vec![s..e], vec![get(&(s..e))])?;
        }
        _ => {
            ctx.probe("push.supply_partial");
            // only some of the ranges now; the decoder must ask again for the rest
            let v: Vec<Range<u64>> = ranges.iter().filter(|_| ctx.chance(1, 2, "supply.partial")).cloned().collect();
            let all = v.len() == ranges.len();
            let d = v.iter().map(get).collect();
            push(v, d)?;
            return Ok(all);
        }
    }
    Ok(true)
}

fn check_request(ctx: &Ctx, who: &str, ranges: &[Range<u64>], len: u64) -> R {
    for r in ranges {
        if r.start > r.end || r.end > len {
            bail_v!(ctx, "range_outside_file", &format!("{who}/request"), "{who} requested {}..{} of a {len}-byte file", r.start, r.end);
        }
    }
    if ranges.is_empty() {
        bail_v!(ctx, "no_progress", &format!("{who}/empty_request"), "{who} returned NeedsData with no ranges: nothing the caller can supply makes progress");
    }
    Ok(())
}

/// Tracks the "requested ranges are sufficient" obligation over a sequence of requests.
struct Progress {
    last: Option<Vec<Range<u64>>>,
    answered: bool,
    repeats: usize,
    rounds: usize,
    max_repeats: usize,
}

impl Progress {
    fn new(max_repeats: usize) -> Self {
        Progress { last: None, answered: false, repeats: 0, rounds: 0, max_repeats }
    }
    fn request(&mut self, ctx: &Ctx, who: &str, ranges: &[Range<u64>]) -> R {
        self.rounds += 1;
        if self.answered && self.last.as_deref() == Some(ranges) {
            self.repeats += 1;
            ctx.probe("push.same_request_again");
            if self.repeats > self.max_repeats {
                bail_v!(ctx, "no_progress", &format!("{who}/same_request"), "{who} asked for the same {} range(s) {} times in a row although they were supplied in full each time: {:?}", ranges.len(), self.repeats + 1, &ranges[..ranges.len().min(4)]);
            }
        } else {
            self.repeats = 0;
        }
        self.last = Some(ranges.to_vec());
        Ok(())
    }
    fn reset(&mut self) {
        self.last = None;
        self.answered = false;
        self.repeats = 0;
    }
}

/// Metadata through `ParquetMetaDataPushDecoder` under a delivery schedule.
pub fn push_metadata(ctx: &Ctx, file: &Bytes, policy: PageIndexPolicy) -> R<Result<ParquetMetaData, String>> {
    set_component("parquet.metadata_push_decoder");
    let len = file.len() as u64;
    let mut d = match ParquetMetaDataPushDecoder::try_new(len) {
        Ok(d) => d.with_page_index_policy(policy),
        Err(e) => return Ok(Err(e.to_string())),
    };
    // optional prefetch of a suffix of tape-chosen size (possibly the whole file, possibly too little)
    if ctx.chance(1, 3, "pm.prefetch") {
        let n = ctx.below(len as usize + 1, "pm.prefetch_len") as u64;
        let r = len - n..len;
        ctx.probe("pushmeta.prefetch");
        if let Err(e) = d.push_range(r.clone(), file.slice(r.start as usize..r.end as usize)) {
            return Ok(Err(e.to_string()));
        }
    }
    let mut prog = Progress::new(1);
    let mut partials = 0;
    let policy = ctx.draw(16, "pm.supply_policy");
    for _ in 0..64 {
        ctx.step();
        match d.try_decode() {
            Ok(DecodeResult::Data(m)) => {
                ctx.count("pushmeta.rounds", prog.rounds as u64);
                if prog.rounds > 3 + partials {
                    bail_v!(ctx, "no_progress", "parquet.metadata_push_decoder/rounds", "metadata needed {} request rounds (footer, metadata, page index = 3 at most; {partials} partial deliveries)", prog.rounds);
                }
                return Ok(Ok(m));
            }
            Ok(DecodeResult::Finished) => return Ok(Err("metadata decoder reported Finished without metadata".into())),
            Err(e) => return Ok(Err(e.to_string())),
            Ok(DecodeResult::NeedsData(ranges)) => {
                check_request(ctx, "parquet.metadata_push_decoder", &ranges, len)?;
                prog.request(ctx, "parquet.metadata_push_decoder", &ranges)?;
                let allow_partial = partials < 3;
                match supply(ctx, file, &ranges, policy, allow_partial, |r, b| d.push_ranges(r, b)) {
                    Ok(all) => {
                        prog.answered = all;
                        if !all {
                            partials += 1;
                        }
                    }
                    Err(e) => return Ok(Err(e.to_string())),
                }
            }
        }
    }
    bail_v!(ctx, "hang", "parquet.metadata_push_decoder/rounds", "metadata not decoded after 64 request rounds")
}

/// Push decoder front end.
pub fn push_decoder(ctx: &Ctx, f: &PqFile, o: &ROpts, use_readers: bool) -> R<Front> {
    let who = if use_readers { "parquet.push_decoder.readers" } else { "parquet.push_decoder" };
    let len = f.bytes.len() as u64;
    // metadata: supplied up front by the pull reader, or produced by the metadata push decoder
    let meta = if ctx.chance(1, 3, "push.meta_pushed") {
        let policy = if o.page_index { PageIndexPolicy::Optional } else { PageIndexPolicy::Skip };
        match push_metadata(ctx, &f.bytes, policy)? {
            Ok(m) => Arc::new(m),
            Err(e) => return Ok(Front::err(e)),
        }
    } else {
        load_meta(f, o)
    };
    set_component(who);
    let b = pq_try!(ParquetPushDecoderBuilder::try_new_decoder_with_options(meta, o.options()));
    let mut d = pq_try!(o.apply(b).build());
    match ctx.draw(8, "push.early") {
        6 => {
            ctx.probe("push.early_whole_file");
            pq_try!(d.push_range(0..len, f.bytes.clone()));
        }
        7 => {
            ctx.probe("push.early_random_ranges");
            for _ in 0..1 + ctx.below(3, "push.early_n") {
                let s = ctx.below(len as usize, "push.early_lo") as u64;
                let e = s + ctx.below((len - s) as usize + 1, "push.early_len") as u64;
                pq_try!(d.push_range(s..e, f.bytes.slice(s as usize..e as usize)));
            }
        }
        _ => {}
    }
    let mut out = Front { batches: vec![], err: None };
    let mut prog = Progress::new(o.preds.len() + 2);
    let mut partials = 0usize;
    let mut held: Vec<ParquetRecordBatchReader> = Vec::new();
    let policy = ctx.draw(16, "push.supply_policy");
    let evict_rate = *ctx.pick(&[0u64, 0, 0, 1], "push.evict_rate");
    let rebuild_rate = *ctx.pick(&[0u64, 0, 4, 16], "push.rebuild_rate");
    let nrg = f.meta.num_row_groups();
    let round_budget = 8 + (nrg + 1) * (o.preds.len() + 2) * 2;
    let mut steps = 0u64;
    loop {
        steps += 1;
        ctx.step();
        if steps > 200_000 {
            bail_v!(ctx, "hang", &format!("{who}/steps"), "no end of data after 200000 decoder calls");
        }
        if evict_rate > 0 && ctx.chance(evict_rate, 8, "push.evict") {
            // the caller drops everything it had staged (memory pressure): the decoder must ask again
            ctx.fault("push.clear_all_ranges", steps);
            d.clear_all_ranges();
            prog.reset();
        }
        if use_readers && rebuild_rate > 0 && d.is_at_row_group_boundary() && d.row_groups_remaining() > 0 && ctx.chance(rebuild_rate, 16, "push.rebuild") {
            ctx.fault("push.into_builder", steps);
            ctx.probe("push.rebuilt_at_boundary");
            let b = pq_try!(d.into_builder());
            d = pq_try!(b.build());
            prog.reset();
        }
        let res = if use_readers {
            match d.try_next_reader() {
                Ok(DecodeResult::Data(r)) => {
                    ctx.probe("push.reader_returned");
                    if ctx.chance(1, 2, "push.hold_reader") {
                        held.push(r);
                    } else {
                        for r in held.drain(..).chain(std::iter::once(r)) {
                            if let Some(e) = drain(r, &mut out.batches) {
                                out.err = Some(e);
                                return Ok(out);
                            }
                        }
                    }
                    prog.reset();
                    continue;
                }
                Ok(DecodeResult::NeedsData(r)) => Ok(DecodeResult::NeedsData(r)),
                Ok(DecodeResult::Finished) => Ok(DecodeResult::Finished),
                Err(e) => Err(e),
            }
        } else {
            d.try_decode()
        };
        match res {
            Err(e) => {
                out.err = Some(e.to_string());
                return Ok(out);
            }
            Ok(DecodeResult::Finished) => break,
            Ok(DecodeResult::Data(b)) => {
                out.batches.push(b);
                prog.reset();
            }
            Ok(DecodeResult::NeedsData(ranges)) => {
                check_request(ctx, who, &ranges, len)?;
                prog.request(ctx, who, &ranges)?;
                if prog.rounds > round_budget + partials + 4 * (steps as usize / 1000) && evict_rate == 0 {
                    bail_v!(ctx, "no_progress", &format!("{who}/rounds"), "{} request rounds for {nrg} row groups and {} predicates ({partials} partial deliveries): more than the bound {round_budget}", prog.rounds, o.preds.len());
                }
                ctx.ev("needs", ranges.len() as u64, ranges.iter().map(|r| r.end - r.start).sum());
                let allow_partial = partials < 4;
                match supply(ctx, &f.bytes, &ranges, policy, allow_partial, |r, b| d.push_ranges(r, b)) {
                    Ok(all) => {
                        prog.answered = all;
                        if !all {
                            partials += 1;
                        }
                    }
                    Err(e) => {
                        out.err = Some(e.to_string());
                        return Ok(out);
                    }
                }
            }
        }
    }
    if !held.is_empty() {
        ctx.probe("push.reader_drained_late");
    }
    for r in held.drain(..) {
        if let Some(e) = drain(r, &mut out.batches) {
            out.err = Some(e);
            break;
        }
    }
    ctx.count("push.rounds", prog.rounds as u64);
    Ok(out)
}

pub fn rows_of_front(fr: &Front) -> Vec<Row> {
    fr.batches.iter().flat_map(gen::rows_of).collect()
}

/// Compare one front end's result with the sync reader's.
pub fn compare(ctx: &Ctx, who: &str, fr: &Front, truth: &[Row], truth_sig: Option<&str>, batch_size: usize) -> R {
    if let Some(e) = &fr.err {
        bail_v!(ctx, "outcome_differs", &format!("{who}/error"), "the sync reader returned {} rows without an error; {who} failed: {e}", truth.len());
    }
    for b in &fr.batches {
        if let Err(e) = gen::validate_batch(b) {
            bail_v!(ctx, "invalid_array", &format!("{who}/batch"), "{who} returned an invalid batch: {e}");
        }
        if b.num_rows() > batch_size.max(1) {
            bail_v!(ctx, "batch_too_large", &format!("{who}/batch"), "{who} returned a batch of {} rows with batch size {batch_size}", b.num_rows());
        }
        let sig = gen::schema_sig(&b.schema(), false);
        if let Some(ts) = truth_sig {
            if sig != ts {
                bail_v!(ctx, "schema_differs", &format!("{who}/schema"), "sync reader schema {ts} vs {who} schema {sig}");
            }
        }
    }
    let rows = rows_of_front(fr);
    if let Some(d) = gen::diff_rows(truth, &rows) {
        bail_v!(ctx, "rows_differ", &format!("{who}/rows"), "sync reader returned {} rows, {who} returned {}: {d}", truth.len(), rows.len());
    }
    Ok(())
}
