//! C16 core: histories of ownership operations on shared buffers against a model of regions.
//!
//! The engine is independent of the simulator crate so that the very same code runs under the
//! tape-driven runner (single-threaded histories, millions of runs) and under Miri (several threads,
//! interpreter-owned preemption).

use arrow_array::ffi::{from_ffi, to_ffi, FFI_ArrowArray, FFI_ArrowSchema};
use arrow_array::ffi_stream::{ArrowArrayStreamReader, FFI_ArrowArrayStream};
use arrow_array::{RecordBatch, RecordBatchIterator};
use arrow_schema::{DataType, Field, Schema};
use arrow_array::types::{Int32Type, Int8Type};
use arrow_array::{make_array, Array, ArrayRef, BooleanArray, DictionaryArray, Int32Array, Int8Array, PrimitiveArray};
use arrow_buffer::alloc::Allocation;
use arrow_buffer::{BooleanBuffer, Buffer, MemoryPool, MutableBuffer, NullBuffer, ScalarBuffer, TrackingMemoryPool};
use std::ptr::NonNull;
use std::sync::atomic::{AtomicUsize, Ordering};
use std::sync::Arc;

pub trait Chooser {
    /// uniform in 0..bound; 0 is the simplest choice
    fn draw(&mut self, bound: u64, label: &'static str) -> u64;
    fn event(&mut self, _tag: &str, _a: u64, _b: u64) {}
    fn probe(&mut self, _name: &str) {}
}

#[derive(Debug, Clone)]
pub struct Violation {
    pub class: &'static str,
    pub key: String,
    pub detail: String,
}

fn v(class: &'static str, key: &str, detail: String) -> Violation {
    Violation { class, key: key.to_string(), detail }
}

/// Owner of a custom allocation: counts releases, scribbles over the region when released and never
/// unmaps it (quarantine), so that a dangling view deterministically reads 0xDD instead of recycled memory.
pub struct Owner {
    ptr: *mut u8,
    len: usize,
    pub released: Arc<AtomicUsize>,
}
unsafe impl Send for Owner {}
unsafe impl Sync for Owner {}
impl std::panic::RefUnwindSafe for Owner {}
impl Drop for Owner {
    fn drop(&mut self) {
        if self.released.fetch_add(1, Ordering::SeqCst) == 0 {
            unsafe { std::ptr::write_bytes(self.ptr, 0xDD, self.len) };
        }
    }
}

/// Memory handed to custom owners; unmapped only when the run is over.
#[derive(Default)]
pub struct Quarantine(Vec<(*mut u8, usize)>);
impl Quarantine {
    pub fn alloc(&mut self, content: &[u8]) -> (NonNull<u8>, usize) {
        // 64-byte aligned, like arrow's own allocations
        let len = content.len().max(1);
        let layout = std::alloc::Layout::from_size_align(len, 64).unwrap();
        let p = unsafe { std::alloc::alloc_zeroed(layout) };
        unsafe { std::ptr::copy_nonoverlapping(content.as_ptr(), p, content.len()) };
        self.0.push((p, len));
        (NonNull::new(p).unwrap(), content.len())
    }
}
impl Drop for Quarantine {
    fn drop(&mut self) {
        for (p, len) in self.0.drain(..) {
            unsafe { std::alloc::dealloc(p, std::alloc::Layout::from_size_align(len, 64).unwrap()) };
        }
    }
}

#[derive(Clone, Copy, PartialEq, Eq, Debug)]
enum Claim {
    No,
    /// claimed in pool 0 or 1 (the latest claim wins: a region has one reservation)
    Yes(usize),
    /// an operation may or may not have copied: the accounting of this region is not predictable
    Unknown,
}

struct Region {
    /// expected content of the whole region
    bytes: Vec<u8>,
    custom: Option<Arc<AtomicUsize>>,
    claim: Claim,
    live: usize,
    /// a view imported over the C Data Interface: separate `Bytes` (own claim, foreign memory) that keeps
    /// the exporting region alive for as long as it has handles
    parent: Option<usize>,
}

enum Kind {
    Buf(Buffer),
    Mut(MutableBuffer),
    VecI32(Vec<i32>),
    Arr(Int32Array),
    Bool(BooleanBuffer),
    /// boolean array: values share a region (bit view), validity is harness-owned with its own bit offset
    BoolArr(BooleanArray),
    /// dictionary array: the values child shares a region, the keys are harness-owned
    Dict(DictionaryArray<Int8Type>),
    Exported(FFI_ArrowArray, FFI_ArrowSchema),
}

struct Handle {
    kind: Kind,
    /// validity of a boolean array (also remembered across export / import)
    validity: Option<Vec<bool>>,
    /// exported / imported handle is a boolean array (bit view) rather than an Int32 array
    bool_view: bool,
    /// keys of a dictionary array (also remembered across export / import)
    dict_keys: Option<Vec<Option<i8>>>,
    region: usize,
    /// byte offset and length of the view into the region (Bool: bit offset / bit length)
    off: usize,
    len: usize,
}

pub struct World {
    regions: Vec<Region>,
    handles: Vec<Handle>,
    pools: [TrackingMemoryPool; 2],
    quarantine: Quarantine,
    pub steps: u64,
    fresh: u8,
}

fn dict_values(d: &DictionaryArray<Int8Type>) -> &Int32Array {
    d.values().as_any().downcast_ref::<Int32Array>().expect("Int32 dictionary values")
}
fn i32s(bytes: &[u8]) -> Vec<i32> {
    bytes.chunks_exact(4).map(|c| i32::from_le_bytes([c[0], c[1], c[2], c[3]])).collect()
}
fn bits(bytes: &[u8], off: usize, len: usize) -> Vec<bool> {
    (off..off + len).map(|i| bytes[i / 8] >> (i % 8) & 1 == 1).collect()
}

impl World {
    pub fn new() -> Self {
        World { regions: vec![], handles: vec![], pools: [TrackingMemoryPool::default(), TrackingMemoryPool::default()], quarantine: Quarantine::default(), steps: 0, fresh: 1 }
    }

    fn content(&mut self, ch: &mut dyn Chooser) -> Vec<u8> {
        let words = 1 + ch.draw(24, "own.words") as usize;
        let base = self.fresh;
        self.fresh = self.fresh.wrapping_mul(31).wrapping_add(7);
        (0..words * 4).map(|i| base.wrapping_add((i as u8).wrapping_mul(13))).collect()
    }

    fn add_region(&mut self, bytes: Vec<u8>, custom: Option<Arc<AtomicUsize>>) -> usize {
        self.regions.push(Region { bytes, custom, claim: Claim::No, live: 0, parent: None });
        self.regions.len() - 1
    }
    fn add_handle(&mut self, kind: Kind, region: usize, off: usize, len: usize) {
        self.regions[region].live += 1;
        self.handles.push(Handle { kind, validity: None, bool_view: false, dict_keys: None, region, off, len });
    }
    fn add_bool_handle(&mut self, kind: Kind, validity: Option<Vec<bool>>, region: usize, off: usize, len: usize) {
        self.regions[region].live += 1;
        self.handles.push(Handle { kind, validity, bool_view: true, dict_keys: None, region, off, len });
    }
    fn add_dict_handle(&mut self, kind: Kind, keys: Vec<Option<i8>>, region: usize, off: usize, len: usize) {
        self.regions[region].live += 1;
        self.handles.push(Handle { kind, validity: None, bool_view: false, dict_keys: Some(keys), region, off, len });
    }
    fn take_handle(&mut self, i: usize) -> Handle {
        let h = self.handles.swap_remove(i);
        self.regions[h.region].live -= 1;
        h
    }
    /// Release the hold an imported view has on its exporter once the view has no handle left.
    /// (Called after the handle value itself has been dropped or re-added.)
    fn settle(&mut self) {
        loop {
            let mut changed = false;
            for i in 0..self.regions.len() {
                if self.regions[i].live == 0 {
                    if let Some(p) = self.regions[i].parent.take() {
                        self.regions[p].live -= 1;
                        changed = true;
                    }
                }
            }
            if !changed {
                break;
            }
        }
    }
    fn foreign(&self, region: usize) -> bool {
        self.regions[region].custom.is_some() || self.regions[region].parent.is_some()
    }

    /// Bytes a handle must show, according to the model.
    fn expected(&self, h: &Handle) -> Vec<u8> {
        let r = &self.regions[h.region];
        match h.kind {
            Kind::Bool(_) => bits(&r.bytes, h.off, h.len).into_iter().map(|b| b as u8).collect(),
            // 2 = null; otherwise the value bit
            Kind::BoolArr(_) => {
                let vals = bits(&r.bytes, h.off, h.len);
                let valid = h.validity.as_ref().expect("validity of a boolean array");
                vals.iter().zip(valid).map(|(b, ok)| if *ok { *b as u8 } else { 2 }).collect()
            }
            Kind::Exported(_, _) => vec![],
            _ => r.bytes[h.off..h.off + h.len].to_vec(),
        }
    }
    fn visible(h: &Handle) -> Option<Vec<u8>> {
        Some(match &h.kind {
            Kind::Buf(b) => b.as_slice().to_vec(),
            Kind::Mut(m) => m.as_slice().to_vec(),
            Kind::VecI32(x) => x.iter().flat_map(|i| i.to_le_bytes()).collect(),
            Kind::Arr(a) => a.values().iter().flat_map(|i| i.to_le_bytes()).collect(),
            Kind::Dict(d) => dict_values(d).values().iter().flat_map(|i| i.to_le_bytes()).collect(),
            Kind::Bool(b) => b.iter().map(|x| x as u8).collect(),
            Kind::BoolArr(a) => a.iter().map(|x| x.map(|b| b as u8).unwrap_or(2)).collect(),
            Kind::Exported(_, _) => return None,
        })
    }

    /// Invariants after every step.
    pub fn check(&self, after: &str) -> Result<(), Violation> {
        for (i, h) in self.handles.iter().enumerate() {
            if let Some(got) = Self::visible(h) {
                let want = self.expected(h);
                if got != want {
                    let at = got.iter().zip(&want).position(|(a, b)| a != b).unwrap_or(got.len().min(want.len()));
                    return Err(v("visible_bytes_changed", "buffer/immutability", format!("after {after}: handle {i} (region {}, view {}+{}) shows {} bytes that differ from the model at index {at} (got {:?}, want {:?})", h.region, h.off, h.len, got.len(), got.get(at), want.get(at))));
                }
            }
        }
        for (ri, r) in self.regions.iter().enumerate() {
            if let Some(c) = &r.custom {
                let n = c.load(Ordering::SeqCst);
                if r.live > 0 && n != 0 {
                    return Err(v("released_while_referenced", "buffer/owner_release", format!("after {after}: owner of region {ri} was released {n} time(s) while {} handle(s) still refer to it", r.live)));
                }
                if r.live == 0 && n != 1 {
                    return Err(v("release_count", "buffer/owner_release", format!("after {after}: no handle refers to region {ri} any more, its owner was released {n} times (expected exactly once)")));
                }
            }
        }
        // pool accounting at this quiescent point
        let mut known = [0usize; 2];
        let mut unknown = false;
        for (ri, r) in self.regions.iter().enumerate() {
            if r.live == 0 {
                continue;
            }
            match r.claim {
                Claim::No => {}
                Claim::Unknown => unknown = true,
                Claim::Yes(p) => match self.capacity_of(ri) {
                    Some(c) => known[p] += c,
                    None => unknown = true,
                },
            }
        }
        for (p, known) in known.into_iter().enumerate() {
            let used = self.pools[p].used();
            if !unknown && used != known {
                return Err(v("pool_accounting", "pool/used", format!("after {after}: pool {p}: used() = {used}, live regions claimed in it total {known}")));
            }
            if unknown && used < known {
                return Err(v("pool_accounting", "pool/used", format!("after {after}: pool {p}: used() = {used} is below the total {known} of the regions known to be claimed in it")));
            }
        }
        Ok(())
    }

    /// Capacity the pool is charged for a region, read from a live handle (None: held as a Vec / exported only).
    fn capacity_of(&self, region: usize) -> Option<usize> {
        let mut cap = None;
        for h in self.handles.iter().filter(|h| h.region == region) {
            let c = match &h.kind {
                Kind::Buf(b) => Some(b.capacity()),
                Kind::Mut(m) => Some(m.capacity()),
                Kind::Arr(a) => Some(a.values().inner().capacity()),
                Kind::Dict(d) => Some(dict_values(d).values().inner().capacity()),
                Kind::Bool(b) => Some(b.inner().capacity()),
                Kind::BoolArr(a) => Some(a.values().inner().capacity()),
                Kind::VecI32(_) | Kind::Exported(_, _) => None,
            };
            match c {
                Some(c) => cap = Some(c),
                None => return None,
            }
        }
        cap
    }

    fn unique(&self, region: usize) -> bool {
        self.regions[region].live == 1
    }

    pub fn step(&mut self, ch: &mut dyn Chooser) -> Result<(), Violation> {
        self.steps += 1;
        let n = self.handles.len();
        let op = if n == 0 { 0 } else { ch.draw(24, "own.op") };
        let pick = |ch: &mut dyn Chooser| ch.draw(n as u64, "own.h") as usize;
        let name: String;
        match op {
            0 | 1 => {
                // a new region: standard allocation (from Vec<i32> or MutableBuffer) or custom owner
                let bytes = self.content(ch);
                match ch.draw(3, "own.new") {
                    0 => {
                        let b = Buffer::from_vec(i32s(&bytes));
                        let r = self.add_region(bytes.clone(), None);
                        self.add_handle(Kind::Buf(b), r, 0, bytes.len());
                        name = "new(from_vec)".into();
                    }
                    1 => {
                        let mut m = MutableBuffer::new(bytes.len());
                        m.extend_from_slice(&bytes);
                        let r = self.add_region(bytes.clone(), None);
                        self.add_handle(Kind::Buf(m.into()), r, 0, bytes.len());
                        name = "new(mutable)".into();
                    }
                    _ => {
                        let (ptr, len) = self.quarantine.alloc(&bytes);
                        let released = Arc::new(AtomicUsize::new(0));
                        let owner: Arc<dyn Allocation> = Arc::new(Owner { ptr: ptr.as_ptr(), len, released: released.clone() });
                        let b = unsafe { Buffer::from_custom_allocation(ptr, len, owner) };
                        let r = self.add_region(bytes.clone(), Some(released));
                        self.add_handle(Kind::Buf(b), r, 0, bytes.len());
                        ch.probe("own.custom_region");
                        name = "new(custom)".into();
                    }
                }
            }
            2 => {
                let i = pick(ch);
                let h = &self.handles[i];
                let (region, off, len) = (h.region, h.off, h.len);
                let k = match &h.kind {
                    Kind::Buf(b) => Some(Kind::Buf(b.clone())),
                    Kind::Arr(a) => Some(Kind::Arr(a.clone())),
                    Kind::Bool(b) => Some(Kind::Bool(b.clone())),
                    Kind::BoolArr(a) => Some(Kind::BoolArr(a.clone())),
                    Kind::Dict(d) => Some(Kind::Dict(d.clone())),
                    _ => None,
                };
                if let Some(k) = k {
                    if matches!(k, Kind::BoolArr(_)) {
                        let val = self.handles[i].validity.clone();
                        self.add_bool_handle(k, val, region, off, len);
                    } else if matches!(k, Kind::Dict(_)) {
                        let keys = self.handles[i].dict_keys.clone().expect("keys");
                        self.add_dict_handle(k, keys, region, off, len);
                    } else {
                        self.add_handle(k, region, off, len);
                    }
                }
                name = "clone".into();
            }
            3 => {
                // byte slice of a buffer (word aligned so that it can still back an Int32Array)
                let i = pick(ch);
                let h = &self.handles[i];
                if let Kind::Buf(b) = &h.kind {
                    let words = h.len / 4;
                    let o = ch.draw(words as u64 + 1, "own.slice_off") as usize;
                    let l = ch.draw((words - o) as u64 + 1, "own.slice_len") as usize;
                    let s = b.slice_with_length(o * 4, l * 4);
                    let (region, off) = (h.region, h.off + o * 4);
                    self.add_handle(Kind::Buf(s), region, off, l * 4);
                    ch.probe("own.sliced");
                }
                name = "slice".into();
            }
            4 => {
                // Buffer -> Int32Array (shares the region)
                let i = pick(ch);
                if matches!(self.handles[i].kind, Kind::Buf(_)) && self.handles[i].len % 4 == 0 {
                    let h = self.take_handle(i);
                    let Kind::Buf(b) = h.kind else { unreachable!() };
                    let a = Int32Array::new(ScalarBuffer::new(b, 0, h.len / 4), None);
                    self.add_handle(Kind::Arr(a), h.region, h.off, h.len);
                }
                name = "wrap_in_array".into();
            }
            5 => {
                // Buffer -> BooleanBuffer over the same bytes at a bit offset
                let i = pick(ch);
                if let Kind::Buf(b) = &self.handles[i].kind {
                    let h = &self.handles[i];
                    let total = h.len * 8;
                    let o = ch.draw(total as u64 + 1, "own.bit_off") as usize;
                    let l = ch.draw((total - o) as u64 + 1, "own.bit_len") as usize;
                    let bb = BooleanBuffer::new(b.clone(), o, l);
                    let (region, off) = (h.region, h.off * 8 + o);
                    self.add_handle(Kind::Bool(bb), region, off, l);
                }
                name = "as_boolean_buffer".into();
            }
            6 => {
                // into_mutable -> mutate -> freeze
                let i = pick(ch);
                if matches!(self.handles[i].kind, Kind::Buf(_)) {
                    let uniq = self.unique(self.handles[i].region);
                    let h = self.take_handle(i);
                    let Kind::Buf(b) = h.kind else { unreachable!() };
                    match b.into_mutable() {
                        Ok(mut m) => {
                            ch.probe("own.into_mutable_ok");
                            if !uniq || h.off != 0 || self.foreign(h.region) {
                                return Err(v("in_place_on_shared", "buffer/into_mutable", format!("into_mutable succeeded on a buffer that is shared={} offset={} foreign={}", !uniq, h.off, self.foreign(h.region))));
                            }
                            // the model region now is exactly the view (length h.len from offset 0)
                            self.regions[h.region].bytes.truncate(h.len);
                            match ch.draw(3, "own.mutate") {
                                0 => {}
                                1 => {
                                    let extra = self.content(ch);
                                    m.extend_from_slice(&extra);
                                    self.regions[h.region].bytes.extend_from_slice(&extra);
                                }
                                _ => {
                                    for x in m.as_slice_mut().iter_mut() {
                                        *x = x.wrapping_add(1);
                                    }
                                    for x in self.regions[h.region].bytes.iter_mut() {
                                        *x = x.wrapping_add(1);
                                    }
                                }
                            }
                            let len = self.regions[h.region].bytes.len();
                            if ch.draw(2, "own.freeze") == 0 {
                                self.add_handle(Kind::Buf(m.into()), h.region, 0, len);
                            } else {
                                self.add_handle(Kind::Mut(m), h.region, 0, len);
                            }
                        }
                        Err(b) => {
                            ch.probe("own.into_mutable_declined");
                            self.add_handle(Kind::Buf(b), h.region, h.off, h.len);
                        }
                    }
                }
                name = "into_mutable".into();
            }
            7 => {
                let i = pick(ch);
                if matches!(self.handles[i].kind, Kind::Mut(_)) {
                    let h = self.take_handle(i);
                    let Kind::Mut(m) = h.kind else { unreachable!() };
                    self.add_handle(Kind::Buf(m.into()), h.region, h.off, h.len);
                }
                name = "freeze".into();
            }
            8 => {
                // into_vec::<i32>
                let i = pick(ch);
                if matches!(self.handles[i].kind, Kind::Buf(_)) {
                    let uniq = self.unique(self.handles[i].region);
                    let h = self.take_handle(i);
                    let Kind::Buf(b) = h.kind else { unreachable!() };
                    match b.into_vec::<i32>() {
                        Ok(x) => {
                            ch.probe("own.into_vec_ok");
                            if !uniq || h.off != 0 || self.foreign(h.region) {
                                return Err(v("in_place_on_shared", "buffer/into_vec", format!("into_vec succeeded on a buffer that is shared={} offset={}", !uniq, h.off)));
                            }
                            self.regions[h.region].bytes.truncate(h.len);
                            self.add_handle(Kind::VecI32(x), h.region, 0, h.len);
                        }
                        Err(b) => self.add_handle(Kind::Buf(b), h.region, h.off, h.len),
                    }
                }
                name = "into_vec".into();
            }
            9 => {
                // in-place unary kernel on an array
                let i = pick(ch);
                if matches!(self.handles[i].kind, Kind::Arr(_)) {
                    let uniq = self.unique(self.handles[i].region);
                    let h = self.take_handle(i);
                    let Kind::Arr(a) = h.kind else { unreachable!() };
                    let via_builder = ch.draw(2, "own.via_builder") == 1;
                    let res = if via_builder {
                        a.into_builder().map(|mut b| {
                            for x in b.values_slice_mut() {
                                *x = x.wrapping_add(3);
                            }
                            b.finish()
                        })
                    } else {
                        a.unary_mut(|x| x.wrapping_add(3))
                    };
                    match res {
                        Ok(a2) => {
                            ch.probe("own.unary_mut_ok");
                            if !uniq {
                                return Err(v("in_place_on_shared", "array/unary_mut", "an in-place kernel succeeded on an array whose values are shared".into()));
                            }
                            let view: Vec<u8> = i32s(&self.regions[h.region].bytes[h.off..h.off + h.len]).iter().flat_map(|x| x.wrapping_add(3).to_le_bytes()).collect();
                            // The result is a new array: in the same allocation (unique, native, zero offset) or in a copy.
                            // Either way nobody else can see the old bytes any more; whether the old claim survives the
                            // trip through the builder is not specified, so the new region's accounting is not predicted.
                            let was_claimed = self.regions[h.region].claim != Claim::No;
                            let nr = self.add_region(view.clone(), None);
                            if was_claimed {
                                self.regions[nr].claim = Claim::Unknown;
                            }
                            self.add_handle(Kind::Arr(a2), nr, 0, view.len());
                        }
                        Err(a) => {
                            ch.probe("own.unary_mut_declined");
                            self.add_handle(Kind::Arr(a), h.region, h.off, h.len);
                        }
                    }
                }
                name = "unary_mut".into();
            }
            10 => {
                // bit-mask assignment operator: in place when unique, a copy otherwise
                let i = pick(ch);
                if matches!(self.handles[i].kind, Kind::Bool(_)) {
                    let uniq = self.unique(self.handles[i].region);
                    let h = self.take_handle(i);
                    let Kind::Bool(mut bb) = h.kind else { unreachable!() };
                    let cur = bits(&self.regions[h.region].bytes, h.off, h.len);
                    let rhs_bits: Vec<bool> = (0..h.len).map(|k| (k * 7 + self.steps as usize) % 3 == 0).collect();
                    let rhs = BooleanBuffer::from(rhs_bits.clone());
                    let which = ch.draw(3, "own.bitop");
                    let before = bb.inner().as_ptr();
                    match which {
                        0 => bb &= &rhs,
                        1 => bb |= &rhs,
                        _ => bb ^= &rhs,
                    }
                    let res: Vec<bool> = cur.iter().zip(&rhs_bits).map(|(a, b)| match which {
                        0 => a & b,
                        1 => a | b,
                        _ => a ^ b,
                    }).collect();
                    let got: Vec<bool> = bb.iter().collect();
                    if got != res {
                        return Err(v("wrong_result", "boolean/assign_op", "bit-mask assignment operator produced the wrong bits".into()));
                    }
                    if bb.inner().as_ptr() == before {
                        // mutated in place: only legal on uniquely owned, natively allocated memory
                        ch.probe("own.bitop_in_place");
                        if h.len > 0 && (!uniq || self.foreign(h.region)) {
                            return Err(v("in_place_on_shared", "boolean/assign_op", format!("bit-mask assignment mutated memory in place although it is shared={} custom={}", !uniq, self.regions[h.region].custom.is_some())));
                        }
                        let r = &mut self.regions[h.region];
                        for (k, b) in res.iter().enumerate() {
                            let p = h.off + k;
                            if *b {
                                r.bytes[p / 8] |= 1 << (p % 8);
                            } else {
                                r.bytes[p / 8] &= !(1 << (p % 8));
                            }
                        }
                        self.add_handle(Kind::Bool(bb), h.region, h.off, h.len);
                    } else {
                        // copied into fresh (unclaimed) memory; every other handle is checked by `check`
                        ch.probe("own.bitop_copied");
                        let nb: Vec<u8> = bb.inner().as_slice().to_vec();
                        let (no, nl) = (bb.offset(), bb.len());
                        let nr = self.add_region(nb, None);
                        self.add_handle(Kind::Bool(bb), nr, no, nl);
                    }
                }
                name = "bit_assign_op".into();
            }
            11 => {
                let i = pick(ch);
                // usually the first pool; a claim in the other one moves the region's reservation there
                let p = (ch.draw(4, "own.pool") == 3) as usize;
                let h = &self.handles[i];
                let pool = &self.pools[p];
                let claimed = match &h.kind {
                    Kind::Buf(b) => {
                        b.claim(pool);
                        true
                    }
                    Kind::Mut(m) => {
                        m.claim(pool);
                        true
                    }
                    Kind::Arr(a) => {
                        a.values().inner().claim(pool);
                        true
                    }
                    Kind::Dict(d) => {
                        dict_values(d).values().inner().claim(pool);
                        true
                    }
                    Kind::Bool(b) => {
                        b.claim(pool);
                        true
                    }
                    _ => false,
                };
                if claimed {
                    let r = h.region;
                    if matches!(self.regions[r].claim, Claim::Yes(q) if q != p) {
                        ch.probe("own.reclaimed_in_other_pool");
                    }
                    if self.regions[r].claim != Claim::Unknown || self.capacity_of(r).is_some() {
                        self.regions[r].claim = Claim::Yes(p);
                    }
                    ch.probe("own.claimed");
                }
                name = "claim".into();
            }
            12 => {
                // export over the C Data Interface
                let i = pick(ch);
                let data = match &self.handles[i].kind {
                    Kind::Arr(a) => Some(a.to_data()),
                    Kind::BoolArr(a) => Some(a.to_data()),
                    Kind::Dict(d) => Some(d.to_data()),
                    _ => None,
                };
                if let Some(data) = data {
                    let (region, off, len) = (self.handles[i].region, self.handles[i].off, self.handles[i].len);
                    let (val, is_bool) = (self.handles[i].validity.clone(), self.handles[i].bool_view);
                    let keys = self.handles[i].dict_keys.clone();
                    match to_ffi(&data) {
                        Ok((fa, fs)) => {
                            if let Some(keys) = keys {
                                self.add_dict_handle(Kind::Exported(fa, fs), keys, region, off, len);
                                ch.probe("own.exported_dictionary");
                            } else if is_bool {
                                self.add_bool_handle(Kind::Exported(fa, fs), val, region, off, len);
                                ch.probe("own.exported_boolean_array");
                            } else {
                                self.add_handle(Kind::Exported(fa, fs), region, off, len);
                            }
                            ch.probe("own.exported");
                        }
                        Err(e) => return Err(v("ffi_error", "ffi/export", format!("to_ffi failed: {e}"))),
                    }
                }
                name = "export".into();
            }
            13 => {
                // import an exported array; the exporter's handles may already be gone
                let i = pick(ch);
                if matches!(self.handles[i].kind, Kind::Exported(_, _)) {
                    let h = self.take_handle(i);
                    let Kind::Exported(fa, fs) = h.kind else { unreachable!() };
                    match unsafe { from_ffi(fa, &fs) } {
                        Ok(data) => {
                            let arr: ArrayRef = make_array(data);
                            if let Some(keys) = &h.dict_keys {
                                // imported dictionary: same keys, values a separate object over the exporter's memory
                                let d = arr.as_any().downcast_ref::<DictionaryArray<Int8Type>>().cloned().ok_or_else(|| v("ffi_error", "ffi/import", "imported array has the wrong type".into()))?;
                                drop(arr);
                                let got_keys: Vec<Option<i8>> = d.keys().iter().collect();
                                let want = self.regions[h.region].bytes[h.off..h.off + h.len].to_vec();
                                let got: Vec<u8> = dict_values(&d).values().iter().flat_map(|x| x.to_le_bytes()).collect();
                                if &got_keys != keys || got != want {
                                    return Err(v("imported_differs", "ffi/roundtrip", format!("dictionary array ({} keys, {} value bytes) imported over the C Data Interface differs from the exported one", keys.len(), want.len())));
                                }
                                let nr = self.add_region(want, None);
                                if !dict_values(&d).values().inner().is_empty() {
                                    self.regions[nr].parent = Some(h.region);
                                    self.regions[h.region].live += 1;
                                }
                                self.add_dict_handle(Kind::Dict(d), keys.clone(), nr, 0, h.len);
                                ch.probe("own.imported");
                                ch.probe("own.imported_dictionary");
                                self.settle();
                                ch.event("import", self.handles.len() as u64, self.regions.len() as u64);
                                return self.check("import");
                            }
                            if h.bool_view {
                                // imported boolean array: logical equality with what was exported (values + validity)
                                let a = arr.as_any().downcast_ref::<BooleanArray>().cloned().ok_or_else(|| v("ffi_error", "ffi/import", "imported array has the wrong type".into()))?;
                                drop(arr);
                                let want: Vec<u8> = {
                                    let vals = bits(&self.regions[h.region].bytes, h.off, h.len);
                                    let valid = h.validity.as_ref().expect("validity");
                                    vals.iter().zip(valid).map(|(b, ok)| if *ok { *b as u8 } else { 2 }).collect()
                                };
                                let got: Vec<u8> = a.iter().map(|x| x.map(|b| b as u8).unwrap_or(2)).collect();
                                if got != want {
                                    let at = got.iter().zip(&want).position(|(x, y)| x != y).unwrap_or(got.len().min(want.len()));
                                    return Err(v("imported_differs", "ffi/roundtrip", format!("boolean array of {} rows imported over the C Data Interface differs from the exported one at row {at} (got {:?}, exported {:?}; 2 = null)", want.len(), got.get(at), want.get(at))));
                                }
                                // a separate object over the exporter's memory; its values may sit at another bit offset
                                let nb: Vec<u8> = a.values().inner().as_slice().to_vec();
                                let (no, nl) = (a.values().offset(), a.len());
                                let nr = self.add_region(nb, None);
                                // the imported object keeps the exporter alive iff it references any of its bytes
                                // (an empty array at a non-zero bit offset still does)
                                if !a.values().inner().is_empty() {
                                    self.regions[nr].parent = Some(h.region);
                                    self.regions[h.region].live += 1;
                                }
                                self.add_bool_handle(Kind::BoolArr(a), h.validity.clone(), nr, no, nl);
                                ch.probe("own.imported");
                                ch.probe("own.imported_boolean_array");
                                self.settle();
                                ch.event("import", self.handles.len() as u64, self.regions.len() as u64);
                                return self.check("import");
                            }
                            let a = arr.as_any().downcast_ref::<Int32Array>().cloned().ok_or_else(|| v("ffi_error", "ffi/import", "imported array has the wrong type".into()))?;
                            drop(arr);
                            // the imported array is a separate buffer object over the exporter's memory
                            let view = self.regions[h.region].bytes[h.off..h.off + h.len].to_vec();
                            let nr = self.add_region(view, None);
                            // (an empty array imports as empty buffers that reference nothing: the exporter may be released at once)
                            if h.len > 0 {
                                self.regions[nr].parent = Some(h.region);
                                self.regions[h.region].live += 1;
                            }
                            self.add_handle(Kind::Arr(a), nr, 0, h.len);
                            ch.probe("own.imported");
                        }
                        Err(e) => return Err(v("ffi_error", "ffi/import", format!("from_ffi failed: {e}"))),
                    }
                }
                name = "import".into();
            }
            16 | 17 => {
                // C Stream Interface: 1-3 arrays move into a stream of single-column batches, the stream is exported,
                // imported and drained; each imported batch is a separate buffer object over its exporter's memory
                let mut moved: Vec<Handle> = Vec::new();
                for _ in 0..1 + ch.draw(3, "own.stream_n") {
                    let cands: Vec<usize> = (0..self.handles.len()).filter(|i| matches!(self.handles[*i].kind, Kind::Arr(_))).collect();
                    if cands.is_empty() {
                        break;
                    }
                    let i = cands[ch.draw(cands.len() as u64, "own.stream_pick") as usize];
                    moved.push(self.take_handle(i));
                }
                if !moved.is_empty() {
                    let schema = Arc::new(Schema::new(vec![Field::new("a", DataType::Int32, true)]));
                    let batches: Vec<Result<RecordBatch, arrow_schema::ArrowError>> = moved
                        .iter()
                        .map(|h| {
                            let Kind::Arr(a) = &h.kind else { unreachable!() };
                            RecordBatch::try_new(schema.clone(), vec![Arc::new(a.clone()) as ArrayRef])
                        })
                        .collect();
                    let stream = FFI_ArrowArrayStream::new(Box::new(RecordBatchIterator::new(batches, schema)));
                    // the exporter's own handles are gone before the consumer looks at the stream (half of the time)
                    let early_drop = ch.draw(2, "own.stream_early_drop") == 1;
                    let mut keep: Vec<Handle> = Vec::new();
                    let meta: Vec<(usize, usize, usize)> = moved.iter().map(|h| (h.region, h.off, h.len)).collect();
                    if early_drop {
                        drop(moved);
                    } else {
                        keep = moved;
                    }
                    let reader = ArrowArrayStreamReader::try_new(stream).map_err(|e| v("ffi_error", "ffi/stream_import", format!("ArrowArrayStreamReader::try_new failed: {e}")))?;
                    let mut got = 0usize;
                    // the consumer may stop early: what it did not pull is released with the stream
                    let pull = if ch.draw(3, "own.stream_stop_early") == 2 { ch.draw(meta.len() as u64, "own.stream_pull") as usize } else { meta.len() };
                    let meta = meta[..pull].to_vec();
                    for (b, (region, off, len)) in reader.zip(meta.iter().copied()) {
                        let b = b.map_err(|e| v("ffi_error", "ffi/stream_next", format!("get_next failed: {e}")))?;
                        let a = b.column(0).as_any().downcast_ref::<Int32Array>().cloned().ok_or_else(|| v("ffi_error", "ffi/stream_next", "imported column has the wrong type".into()))?;
                        drop(b);
                        let want = self.regions[region].bytes[off..off + len].to_vec();
                        let bytes: Vec<u8> = a.values().iter().flat_map(|x| x.to_le_bytes()).collect();
                        if bytes != want {
                            return Err(v("imported_differs", "ffi/stream_roundtrip", format!("batch {got} imported over the C Stream Interface differs from the exported array ({} vs {} bytes)", bytes.len(), want.len())));
                        }
                        let nr = self.add_region(want, None);
                        if !a.values().inner().is_empty() {
                            self.regions[nr].parent = Some(region);
                            self.regions[region].live += 1;
                        }
                        self.add_handle(Kind::Arr(a), nr, 0, len);
                        got += 1;
                    }
                    if got != meta.len() {
                        return Err(v("imported_differs", "ffi/stream_roundtrip", format!("{} batches went into the stream, {got} came out", meta.len())));
                    }
                    drop(keep);
                    ch.probe("own.stream_roundtrip");
                }
                name = "stream_roundtrip".into();
            }
            14 | 15 => {
                // BooleanBuffer -> BooleanArray with a validity mask that has its own bit offset
                let i = pick(ch);
                if matches!(self.handles[i].kind, Kind::Bool(_)) {
                    let h = self.take_handle(i);
                    let Kind::Bool(bb) = h.kind else { unreachable!() };
                    let valid: Option<Vec<bool>> = if ch.draw(4, "own.no_nulls") == 3 { None } else { Some((0..h.len).map(|k| (k * 5 + self.steps as usize) % 4 != 0).collect()) };
                    let nulls = valid.as_ref().map(|vb| {
                        // the mask sits at a chooser-decided bit offset inside its own buffer
                        let lead = *[0usize, 8, 16, 3, 24, 64].get(ch.draw(6, "own.null_off") as usize).unwrap();
                        let all: Vec<bool> = std::iter::repeat(true).take(lead).chain(vb.iter().copied()).collect();
                        NullBuffer::new(BooleanBuffer::from(all).slice(lead, vb.len()))
                    });
                    let a = BooleanArray::new(bb, nulls);
                    let val = Some(valid.unwrap_or_else(|| vec![true; h.len]));
                    self.add_bool_handle(Kind::BoolArr(a), val, h.region, h.off, h.len);
                    ch.probe("own.boolean_array");
                }
                name = "as_boolean_array".into();
            }
            20 => {
                // Int32Array -> dictionary values (shares the region); the keys are harness-owned
                let i = pick(ch);
                if matches!(self.handles[i].kind, Kind::Arr(_)) && self.handles[i].len >= 4 {
                    let h = self.take_handle(i);
                    let Kind::Arr(a) = h.kind else { unreachable!() };
                    let nv = (h.len / 4).min(100);
                    let nk = ch.draw(9, "own.dict_keys") as usize;
                    let keys: Vec<Option<i8>> = (0..nk).map(|k| if (k + self.steps as usize) % 5 == 4 { None } else { Some(((k * 3 + self.steps as usize) % nv) as i8) }).collect();
                    let d = DictionaryArray::<Int8Type>::try_new(Int8Array::from(keys.clone()), Arc::new(a)).map_err(|e| v("harness", "dictionary/new", format!("{e}")))?;
                    self.add_dict_handle(Kind::Dict(d), keys, h.region, h.off, h.len);
                    ch.probe("own.dictionary_array");
                }
                name = "as_dictionary".into();
            }
            21 => {
                // in-place binary kernel: the left operand is consumed and mutated only if uniquely owned; the right
                // operand is borrowed: another handle of equal length, an alias of the left operand's own memory
                // (a clone kept by the caller), or harness-owned memory
                let i = pick(ch);
                if matches!(self.handles[i].kind, Kind::Arr(_)) {
                    let words = self.handles[i].len / 4;
                    let peers: Vec<usize> = (0..n).filter(|&j| j != i && matches!(self.handles[j].kind, Kind::Arr(_)) && self.handles[j].len / 4 == words).collect();
                    let mode = ch.draw(4, "own.bin_rhs");
                    let fallible = ch.draw(2, "own.bin_try") == 1;
                    let mut uniq = self.unique(self.handles[i].region);
                    let rhs: Int32Array = match mode {
                        0 if !peers.is_empty() => {
                            ch.probe("own.binary_mut_peer");
                            let j = peers[ch.draw(peers.len() as u64, "own.bin_peer") as usize];
                            let Kind::Arr(b) = &self.handles[j].kind else { unreachable!() };
                            b.clone()
                        }
                        1 => {
                            // the caller keeps a clone of the left operand and passes it as the right one
                            ch.probe("own.binary_mut_alias");
                            uniq = false;
                            let Kind::Arr(a) = &self.handles[i].kind else { unreachable!() };
                            a.clone()
                        }
                        _ => Int32Array::from((0..words).map(|k| (k as i32).wrapping_mul(0x0101_0101) ^ self.steps as i32).collect::<Vec<i32>>()),
                    };
                    // the right operand's values as they are now: they must still be so afterwards
                    let rhs_vals: Vec<i32> = rhs.values().to_vec();
                    let h = self.take_handle(i);
                    let Kind::Arr(a) = h.kind else { unreachable!() };
                    let lhs_vals: Vec<i32> = i32s(&self.regions[h.region].bytes[h.off..h.off + h.len]);
                    let fails_at = if fallible { lhs_vals.iter().zip(&rhs_vals).position(|(l, r)| (l ^ r) & 0x1f == 0x1f) } else { None };
                    let res = if fallible {
                        arrow_arith::arity::try_binary_mut(a, &rhs, |l, r| if (l ^ r) & 0x1f == 0x1f { Err(arrow_schema::ArrowError::ComputeError("refused".into())) } else { Ok(l.wrapping_sub(r)) })
                    } else {
                        arrow_arith::arity::binary_mut(a, &rhs, |l: i32, r: i32| l.wrapping_sub(r))
                    };
                    if rhs.values().as_ref() != rhs_vals.as_slice() {
                        return Err(v("visible_bytes_changed", "array/binary_mut", "an in-place binary kernel changed its borrowed right operand".into()));
                    }
                    match res {
                        Ok(r) => {
                            ch.probe("own.binary_mut_ok");
                            if (!uniq || self.foreign(h.region)) && words > 0 {
                                return Err(v("in_place_on_shared", "array/binary_mut", format!("an in-place binary kernel took the mutable path on an array whose values are shared={} foreign={}", !uniq, self.foreign(h.region))));
                            }
                            match r {
                                Ok(a2) => {
                                    if fails_at.is_some() && words > 0 {
                                        return Err(v("wrong_result", "array/binary_mut", "try_binary_mut returned an array although its operation failed on a row".into()));
                                    }
                                    let want: Vec<i32> = lhs_vals.iter().zip(&rhs_vals).map(|(l, r)| l.wrapping_sub(*r)).collect();
                                    if a2.values().as_ref() != want.as_slice() || a2.null_count() != 0 {
                                        return Err(v("wrong_result", "array/binary_mut", "an in-place binary kernel produced the wrong values".into()));
                                    }
                                    let view: Vec<u8> = want.iter().flat_map(|x| x.to_le_bytes()).collect();
                                    let was_claimed = self.regions[h.region].claim != Claim::No;
                                    let nr = self.add_region(view.clone(), None);
                                    if was_claimed {
                                        self.regions[nr].claim = Claim::Unknown;
                                    }
                                    self.add_handle(Kind::Arr(a2), nr, 0, view.len());
                                }
                                Err(_) => {
                                    // the operation refused a row: the (uniquely owned) left operand is gone
                                    ch.probe("own.binary_mut_op_error");
                                    if fails_at.is_none() {
                                        return Err(v("wrong_result", "array/binary_mut", "an in-place binary kernel reported an error the operation never returned".into()));
                                    }
                                }
                            }
                        }
                        Err(a) => {
                            ch.probe("own.binary_mut_declined");
                            self.add_handle(Kind::Arr(a), h.region, h.off, h.len);
                        }
                    }
                }
                name = "binary_mut".into();
            }
            22 => {
                // shrink_to_fit: may reallocate a uniquely owned native region down to the view (or free it when the
                // view is empty); what is visible must not change and the pool must be charged the new capacity
                let i = pick(ch);
                let uniq = self.unique(self.handles[i].region);
                let h = &mut self.handles[i];
                match &mut h.kind {
                    Kind::Buf(b) => {
                        let before = b.capacity();
                        b.shrink_to_fit();
                        if b.capacity() != before {
                            ch.probe("own.shrunk");
                            if !uniq {
                                return Err(v("in_place_on_shared", "buffer/shrink_to_fit", "shrink_to_fit reallocated a region that other handles refer to".into()));
                            }
                            if h.len == 0 {
                                ch.probe("own.shrunk_to_empty");
                                // the region was freed: the view no longer has an offset into it
                                h.off = 0;
                            }
                        }
                    }
                    Kind::Arr(a) => {
                        let before = a.values().inner().capacity();
                        a.shrink_to_fit();
                        if a.values().inner().capacity() != before {
                            ch.probe("own.shrunk");
                            if !uniq {
                                return Err(v("in_place_on_shared", "array/shrink_to_fit", "shrink_to_fit reallocated a region that other handles refer to".into()));
                            }
                            if h.len == 0 {
                                ch.probe("own.shrunk_to_empty");
                                h.off = 0;
                            }
                        }
                    }
                    _ => {}
                }
                name = "shrink_to_fit".into();
            }
            _ => {
                let i = pick(ch);
                let h = self.take_handle(i);
                drop(h);
                name = "drop".into();
            }
        }
        self.settle();
        ch.event(&name, self.handles.len() as u64, self.regions.len() as u64);
        self.check(&name)
    }

    /// Drop everything in a chooser-decided order, checking after each drop; then nothing may be left charged.
    pub fn finish(mut self, ch: &mut dyn Chooser) -> Result<u64, Violation> {
        while !self.handles.is_empty() {
            let i = ch.draw(self.handles.len() as u64, "own.final_drop") as usize;
            let h = self.take_handle(i);
            drop(h);
            self.settle();
            self.check("final drop")?;
        }
        for (p, pool) in self.pools.iter().enumerate() {
            if pool.used() != 0 {
                return Err(v("pool_accounting", "pool/leak", format!("every handle is gone, pool {p}: used() = {}", pool.used())));
            }
        }
        Ok(self.steps)
    }
}

impl Default for World {
    fn default() -> Self {
        Self::new()
    }
}

// referenced so that the unused-import lint stays quiet for items used only in some configurations
#[allow(dead_code)]
fn _uses(_: &BooleanArray, _: &NullBuffer, _: &PrimitiveArray<Int32Type>, _: &dyn MemoryPool) {}

// ---------------------------------------------------------------------------------------------
// Several caller threads over shared buffers and one shared pool (run under Miri, which owns the
// interleaving at instruction granularity and reports races / use-after-free / double free / leaks)
// ---------------------------------------------------------------------------------------------

pub mod threads {
    use super::*;
    use std::sync::mpsc;

    struct Rng(u64);
    impl Rng {
        fn next(&mut self) -> u64 {
            self.0 ^= self.0 << 13;
            self.0 ^= self.0 >> 7;
            self.0 ^= self.0 << 17;
            self.0
        }
        fn below(&mut self, n: u64) -> u64 {
            self.next() % n.max(1)
        }
    }

    /// What travels between threads: an exported array (C Data Interface structs) and the bytes it must import as.
    struct Parcel {
        array: FFI_ArrowArray,
        schema: FFI_ArrowSchema,
        expect: Vec<u8>,
    }

    fn check_buf(b: &Buffer, want: &[u8], who: &str) -> Result<(), String> {
        if b.as_slice() != want {
            return Err(format!("VISIBLE-BYTES-CHANGED {who}: a shared buffer no longer shows the bytes it was created with"));
        }
        Ok(())
    }

    /// One worker: operations on its own handles (clones of shared regions), a private claimed growing
    /// buffer (reservation resizes race on the shared pool counter), parcels sent to the next worker.
    fn worker(id: usize, seed: u64, ops: usize, base: Vec<(Buffer, Vec<u8>)>, pool: Arc<TrackingMemoryPool>, tx: mpsc::Sender<Parcel>, rx: mpsc::Receiver<Parcel>) -> Result<(), String> {
        let mut rng = Rng(seed | 1);
        let mut mine: Vec<(Buffer, Vec<u8>)> = base;
        let mut private = MutableBuffer::new(0);
        private.claim(pool.as_ref());
        let mut imported: Vec<(Int32Array, Vec<u8>)> = vec![];
        for step in 0..ops {
            let who = format!("thread {id} step {step}");
            match rng.below(8) {
                0 if !mine.is_empty() => {
                    let i = rng.below(mine.len() as u64) as usize;
                    let c = (mine[i].0.clone(), mine[i].1.clone());
                    mine.push(c);
                }
                1 if !mine.is_empty() => {
                    let i = rng.below(mine.len() as u64) as usize;
                    let words = mine[i].1.len() / 4;
                    let o = rng.below(words as u64 + 1) as usize;
                    let l = rng.below((words - o) as u64 + 1) as usize;
                    let s = mine[i].0.slice_with_length(o * 4, l * 4);
                    let e = mine[i].1[o * 4..(o + l) * 4].to_vec();
                    mine.push((s, e));
                }
                2 if !mine.is_empty() => {
                    let i = rng.below(mine.len() as u64) as usize;
                    mine[i].0.claim(pool.as_ref());
                }
                3 => {
                    // grow / shrink the private claimed buffer: its reservation is resized on the shared counter
                    if rng.below(3) == 0 {
                        private.truncate(private.len() / 2);
                        private.shrink_to_fit();
                    } else {
                        private.extend_from_slice(&[id as u8; 48]);
                    }
                }
                4 if !mine.is_empty() => {
                    // in-place attempt: may only succeed when nobody else holds the region; the result is private
                    let i = rng.below(mine.len() as u64) as usize;
                    let (b, e) = mine.swap_remove(i);
                    match b.into_mutable() {
                        Ok(mut m) => {
                            for x in m.as_slice_mut() {
                                *x = x.wrapping_add(1);
                            }
                            let e2: Vec<u8> = e.iter().map(|x| x.wrapping_add(1)).collect();
                            mine.push((m.into(), e2));
                        }
                        Err(b) => mine.push((b, e)),
                    }
                }
                5 if !mine.is_empty() => {
                    // export an array over one of my buffers and hand it to the next thread
                    let i = rng.below(mine.len() as u64) as usize;
                    let (b, e) = (&mine[i].0, &mine[i].1);
                    let a = Int32Array::new(ScalarBuffer::new(b.clone(), 0, e.len() / 4), None);
                    let (array, schema) = to_ffi(&a.to_data()).map_err(|e| format!("FFI-ERROR {who}: {e}"))?;
                    // the receiver may already have finished: then the parcel is dropped here, which must release it
                    let _ = tx.send(Parcel { array, schema, expect: e.clone() });
                }
                6 => {
                    if let Ok(p) = rx.try_recv() {
                        let data = unsafe { from_ffi(p.array, &p.schema) }.map_err(|e| format!("FFI-ERROR {who}: {e}"))?;
                        let arr = make_array(data);
                        let a = arr.as_any().downcast_ref::<Int32Array>().cloned().ok_or_else(|| format!("FFI-ERROR {who}: wrong type"))?;
                        let got: Vec<u8> = a.values().iter().flat_map(|x| x.to_le_bytes()).collect();
                        if got != p.expect {
                            return Err(format!("IMPORTED-DIFFERS {who}: array imported from another thread differs from the exported one"));
                        }
                        imported.push((a, p.expect));
                    }
                }
                _ => {
                    if !mine.is_empty() && rng.below(2) == 0 {
                        let i = rng.below(mine.len() as u64) as usize;
                        mine.swap_remove(i);
                    } else if !imported.is_empty() {
                        imported.swap_remove(0);
                    }
                }
            }
            // immutability: everything I hold still shows its bytes
            for (b, e) in &mine {
                check_buf(b, e, &who)?;
            }
            for (a, e) in &imported {
                let got: Vec<u8> = a.values().iter().flat_map(|x| x.to_le_bytes()).collect();
                if &got != e {
                    return Err(format!("VISIBLE-BYTES-CHANGED {who}: an imported array changed"));
                }
            }
            std::thread::yield_now();
        }
        drop(rx);
        drop(tx);
        Ok(())
    }

    /// Returns Err(description) on a violation of the model's obligations; Miri itself reports races,
    /// use-after-free, double free and leaks.
    pub fn run(seed: u64, nthreads: usize, ops: usize) -> Result<(), String> {
        let mut rng = Rng(seed.wrapping_mul(0x9E3779B97F4A7C15) | 1);
        let pool = Arc::new(TrackingMemoryPool::default());
        let mut quarantine = Quarantine::default();
        let mut owners: Vec<Arc<AtomicUsize>> = vec![];
        let mut base: Vec<(Buffer, Vec<u8>)> = vec![];
        for r in 0..3 + rng.below(3) as usize {
            let words = 1 + rng.below(6) as usize;
            let bytes: Vec<u8> = (0..words * 4).map(|i| (r * 40 + i) as u8).collect();
            let b = if r % 2 == 0 {
                Buffer::from_vec(i32s(&bytes))
            } else {
                let (ptr, len) = quarantine.alloc(&bytes);
                let released = Arc::new(AtomicUsize::new(0));
                owners.push(released.clone());
                let owner: Arc<dyn Allocation> = Arc::new(Owner { ptr: ptr.as_ptr(), len, released });
                unsafe { Buffer::from_custom_allocation(ptr, len, owner) }
            };
            base.push((b, bytes));
        }
        // a ring of channels: thread i sends to thread i+1
        let mut txs = vec![];
        let mut rxs = vec![];
        for _ in 0..nthreads {
            let (tx, rx) = mpsc::channel::<Parcel>();
            txs.push(tx);
            rxs.push(Some(rx));
        }
        let mut joins = vec![];
        for t in 0..nthreads {
            let share: Vec<(Buffer, Vec<u8>)> = base.iter().filter(|_| rng.below(3) != 0).map(|(b, e)| (b.clone(), e.clone())).collect();
            let tx = txs[(t + 1) % nthreads].clone();
            let rx = rxs[t].take().unwrap();
            let pool = pool.clone();
            let s = rng.next();
            joins.push(std::thread::spawn(move || worker(t, s, ops, share, pool, tx, rx)));
        }
        drop(txs);
        // the main thread drops its own references while the workers run
        while !base.is_empty() {
            let i = rng.below(base.len() as u64) as usize;
            let (b, e) = base.swap_remove(i);
            check_buf(&b, &e, "main")?;
            drop(b);
            std::thread::yield_now();
        }
        let mut first_err = None;
        for j in joins {
            match j.join() {
                Ok(Ok(())) => {}
                Ok(Err(e)) => first_err = first_err.or(Some(e)),
                Err(_) => first_err = first_err.or(Some("PANIC in a worker thread".to_string())),
            }
        }
        if let Some(e) = first_err {
            return Err(e);
        }
        // quiescent point: every handle, parcel and private buffer is gone
        for (i, o) in owners.iter().enumerate() {
            let n = o.load(Ordering::SeqCst);
            if n != 1 {
                return Err(format!("RELEASE-COUNT: custom owner {i} was released {n} times after every reference was dropped (expected exactly once)"));
            }
        }
        if pool.used() != 0 {
            return Err(format!("POOL-ACCOUNTING: every claimed buffer is gone, pool.used() = {}", pool.used()));
        }
        drop(quarantine);
        Ok(())
    }
}
