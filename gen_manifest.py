#!/usr/bin/env python3
"""Writes MANIFEST.json from checks_meta.py (single source of truth)."""
import json, os, subprocess
ROOT = os.path.dirname(os.path.abspath(__file__))
import sys
sys.path.insert(0, ROOT)
from checks_meta import CHECKS, NOT_APPLICABLE, MANIFEST_TEXT

hooks_commits = [l.strip() for l in open(os.path.join(ROOT, "hooks_commits.txt"))] if os.path.exists(os.path.join(ROOT, "hooks_commits.txt")) else []
m = {
    "version": 1,
    "setup_cmd": "./setup.sh",
    "hooks": {
        "guard": "arrow_rs_verif",
        "enable": "RUSTFLAGS='--cfg arrow_rs_verif' (set by ./check and ./setup.sh for every harness build; off in the repository's own builds)",
        "baseline_off_cmd": "cd /repo && cargo nextest run --workspace --no-fail-fast --tool-config-file pb:/w/lib/nextest.toml --profile pb --test-threads 8 --offline || cargo test --workspace --no-fail-fast --offline",
        "source_commits": hooks_commits,
        "add_only": True,
    },
    "engines": [
        {"name": "simcore", "path": "sim/simcore", "serves_properties": sorted(CHECKS), "kind_free_text": "in-tree deterministic simulator: choice tape (one seed = one run), simulated Read/Write/Seek/BufRead/AsyncRead/AsyncWrite seams with fault injection, manual executor, tape shrinker, replay"},
        {"name": "gen", "path": "sim/gen", "serves_properties": sorted(CHECKS), "kind_free_text": "seeded workload generator and logical value model (oracle side never uses arrow's ==)"},
        {"name": "own", "path": "sim/own", "serves_properties": ["C16"], "kind_free_text": "engine-independent ownership model (regions, handles, release counters, pool accounting) driven by the choice tape (stage 1) and by real threads under Miri (stage 2, sim/c16_miri)"},
        {"name": "miri", "path": "sim/c16_miri", "serves_properties": ["C16"], "kind_free_text": "cargo +nightly miri run with -Zmiri-many-seeds: the interpreter owns thread interleaving at instruction granularity (seeded, replayable by -Zmiri-seed) and detects data races, use after free, double free and leaks"},
        {"name": "check", "path": "check", "serves_properties": sorted(CHECKS), "kind_free_text": "supervisor: builds against /repo's working tree, fans runs out over worker processes, attributes aborts and hangs, determinism recheck, evidence, known findings"},
    ],
    "checks": [],
    "not_applicable": NOT_APPLICABLE,
    "notes": MANIFEST_TEXT,
}
for pid in sorted(CHECKS):
    c = CHECKS[pid]
    m["checks"].append({
        "property_id": pid,
        "quick_cmd": f"./check {pid} --tier quick",
        "thorough_cmd": f"./check {pid} --tier thorough",
        "evidence_file": f"/verif/evidence/{pid}.json",
        "replay_cmd_template": f"./check {pid} --replay {{path}}",
        "engine": "simcore",
        "level_claimed": {"category": c["level"], "text": c["level_text"], "design_ref": c["design_ref"]},
        "level_note": c["level_note"],
        "technique": c["technique"],
    })
json.dump(m, open(os.path.join(ROOT, "MANIFEST.json"), "w"), indent=1)
print("wrote MANIFEST.json with", len(m["checks"]), "checks")
