#!/bin/sh
# Cold build of every harness binary against /repo's working tree, offline.
set -e
cd "$(dirname "$0")/sim"
export CARGO_NET_OFFLINE=true
export RUSTFLAGS="${RUSTFLAGS:+$RUSTFLAGS }--cfg arrow_rs_verif"
cargo build --release --offline --workspace --bins
# ./check builds one package at a time (-p), which resolves features per package: warm those builds too
cargo build --release --offline -p light --bins
cargo build --release --offline -p checks --bins
