#!/bin/sh
# Cold build of every harness binary against /repo's working tree, offline.
set -e
cd "$(dirname "$0")/sim"
export CARGO_NET_OFFLINE=true
export RUSTFLAGS="${RUSTFLAGS:+$RUSTFLAGS }--cfg arrow_rs_verif"
cargo build --release --offline --workspace --bins
# ./check builds one package at a time (-p), which resolves features per package: warm those builds too
cargo build --release --offline -p light --bins
cargo build --release --offline -p checks --bins
# C16 stage 2: build the Miri sysroot and the threaded scenario under the interpreter (offline; rust-src is installed)
MIRIFLAGS="-Zmiri-disable-isolation" cargo +nightly miri run --offline -q -p c16_miri -- 1 1 2 2
